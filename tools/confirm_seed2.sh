#!/bin/bash
# confirm_seed2.sh <prop> <srcdir> <name>: like confirm_seed.sh, for sub-agent output whose meta.json names
# demo_pkg (package directory) and optional run_flags (e.g. -race). Confirms independently in a scratch worktree:
# demo passes on HEAD, change builds, full suite passes with it, demo fails with it; then stores /verif/seeded/<name>/.
set -u
PROP=$1; SRC=$2; NAME=$3
export GOFLAGS=-mod=mod GOPROXY=off GOSUMDB=off GOTOOLCHAIN=local
WT=/tmp/seedverify/$NAME
rm -rf "$WT"; mkdir -p /tmp/seedverify
git -C /repo worktree add -q --detach "$WT" HEAD || exit 2
cleanup() { git -C /repo worktree remove --force "$WT" 2>/dev/null; rm -rf "$WT"; }
trap cleanup EXIT
cd "$WT"
PKGDIR=$(python3 -c "import json;print(json.load(open('$SRC/meta.json')).get('demo_pkg','').strip('./'))")
FLAGS=$(python3 -c "import json;print(json.load(open('$SRC/meta.json')).get('run_flags','') or '')")
TESTRE=$(grep -o '^func Test[A-Za-z0-9_]*' "$SRC/demo_test.go" | sed 's/func //' | paste -sd'|')
[ -z "$PKGDIR" ] && { echo "$NAME: no demo_pkg"; exit 2; }
if ! git apply --check "$SRC/patch.diff" 2>/dev/null; then echo "$NAME: patch does not apply to current HEAD"; exit 3; fi
cp "$SRC/demo_test.go" "$PKGDIR/zz_seed_demo_test.go"
CLEAN=$(go test -vet=off -count=2 $FLAGS -timeout 180s -run "^($TESTRE)\$" ./$PKGDIR 2>&1 | tail -3)
echo "$CLEAN" | grep -q "^ok" && CLEAN_OK=1 || CLEAN_OK=0
rm -f "$PKGDIR/zz_seed_demo_test.go"
git apply "$SRC/patch.diff"
go build ./... >/dev/null 2>&1 && BUILD_OK=1 || BUILD_OK=0
SUITE=$(go test -vet=off -count=1 -timeout 300s ./... 2>&1)
echo "$SUITE" | grep -q -E "FAIL|panic" && SUITE_OK=0 || SUITE_OK=1
cp "$SRC/demo_test.go" "$PKGDIR/zz_seed_demo_test.go"
MUT=$(go test -vet=off -count=1 $FLAGS -timeout 180s -run "^($TESTRE)\$" ./$PKGDIR 2>&1 | tail -8)
echo "$MUT" | grep -q -E "FAIL" && MUT_FAIL=1 || MUT_FAIL=0
echo "$NAME: clean_demo_ok=$CLEAN_OK build_ok=$BUILD_OK suite_ok_with_change=$SUITE_OK demo_fails_with_change=$MUT_FAIL"
if [ "$CLEAN_OK" = 1 ] && [ "$BUILD_OK" = 1 ] && [ "$SUITE_OK" = 1 ] && [ "$MUT_FAIL" = 1 ]; then
  D=/verif/seeded/$NAME; mkdir -p "$D"
  cp "$SRC/patch.diff" "$D/patch.diff"; cp "$SRC/demo_test.go" "$D/demo_test.go"
  python3 - "$SRC/meta.json" "$D/meta.json" "$PROP" "$FLAGS" "$TESTRE" "$PKGDIR" <<'PY'
import json,sys
m=json.load(open(sys.argv[1]))
m['property']=sys.argv[3]
m['confirmed_by_me']={'suite_passes_with_change':True,'demo_fails_with_change':True,'demo_passes_without_change':True,
  'how':'tools/confirm_seed2.sh in a scratch worktree of /repo HEAD: go build ./...; go test -vet=off -count=1 ./... with the change; demo copied to %s/zz_seed_demo_test.go and run with go test -vet=off %s -run "^(%s)$" ./%s on HEAD (-count=2, passes) and with the change (fails)' % (sys.argv[6], sys.argv[4], sys.argv[5], sys.argv[6])}
json.dump(m,open(sys.argv[2],'w'),indent=1)
PY
  exit 0
fi
echo "$CLEAN" | tail -3; echo "$MUT" | tail -5
exit 1
