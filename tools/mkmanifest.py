#!/usr/bin/env python3
"""Regenerates /verif/MANIFEST.json from the table below (claims, notes, not_applicable)."""
import json, os, sys
HERE = os.path.dirname(os.path.dirname(os.path.abspath(__file__)))
sys.path.insert(0, os.path.join(HERE, "tools"))
from claims import CLAIMS, NOT_APPLICABLE

TECH = "contract-based deductive verification: weakest-precondition style symbolic execution over go/ssa of the real functions against contracts in /repo/*/verif_contracts.go, obligations discharged by z3 4.8.12 / z3 5.1.0 / cvc5 1.0"

checks = []
for pid in sorted(CLAIMS):
    c = CLAIMS[pid]
    checks.append({
        "property_id": pid,
        "quick_cmd": f"./check {pid} --tier quick",
        "thorough_cmd": f"./check {pid} --tier thorough",
        "evidence_file": f"/verif/evidence/{pid}.json",
        "replay_cmd_template": "./check " + pid + " --replay {path}",
        "engine": "govc",
        "level_claimed": {"category": "proof", "text": c["text"], "design_ref": c.get("design_ref", "DESIGN.md §4 " + pid)},
        "level_note": c["note"],
        "technique": TECH,
    })
m = {
    "version": 1,
    "setup_cmd": "cd /verif/govc && GOFLAGS=-mod=mod GOPROXY=off GOSUMDB=off GOTOOLCHAIN=local go build -o govc .",
    "hooks": {
        "guard": "verif",
        "enable": "-tags=verif: comment-only contract files /repo/*/verif_contracts.go, read by govc (packages.Load with -tags=verif); no executable hook",
        "baseline_off_cmd": "cd /repo && GOFLAGS=-mod=mod GOPROXY=off GOSUMDB=off go test -json -vet=off -count=1 -timeout 25m ./...",
        "source_commits": json.load(open(os.path.join(HERE, "tools", "hook_commits.json"))),
        "add_only": True,
    },
    "engines": [{
        "name": "govc", "path": "/verif/govc",
        "serves_properties": sorted(CLAIMS),
        "kind_free_text": "home-built deductive verifier for Go: contracts (requires/ensures/modifies/loop invariants/decreases, ghost state, lemmas) as structured comments; VC generation by path-wise symbolic execution of go/ssa between cut points against callee contracts; SMT back ends z3 4.8.12, z3 5.1.0, cvc5 1.0",
    }],
    "checks": checks,
    "not_applicable": [{"property_id": k, "reason": v} for k, v in sorted(NOT_APPLICABLE.items())],
    "notes": "See DESIGN.md. Each check proves a named obligation set on real functions; what is argued on paper or assumed is listed per property in level_note and in the evidence file.",
}
json.dump(m, open(os.path.join(HERE, "MANIFEST.json"), "w"), indent=1)
print("wrote MANIFEST.json:", len(checks), "checks,", len(NOT_APPLICABLE), "not applicable")
