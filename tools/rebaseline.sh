#!/bin/bash
# Rewrites /verif/baseline/<id>.txt for the given properties from a run on the unchanged tree (maintenance only).
cd /verif
[ -n "$(git -C /repo status --porcelain)" ] && { echo "/repo has uncommitted changes"; exit 2; }
for P in "$@"; do ./check $P --update-baseline | tail -1; done
