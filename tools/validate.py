#!/usr/bin/env python3
import json, sys, glob, jsonschema
m = json.load(open('/verif/MANIFEST.json'))
jsonschema.validate(m, json.load(open('/root/.vp/MANIFEST.schema.json')))
es = json.load(open('/root/.vp/EVIDENCE.schema.json'))
for c in m['checks']:
    f = c['evidence_file']
    try:
        jsonschema.validate(json.load(open(f)), es)
    except FileNotFoundError:
        print("missing evidence", f)
ids = {c['property_id'] for c in m['checks']} | {n['property_id'] for n in m.get('not_applicable', [])}
for c in m["checks"]:
    try:
        e=json.load(open(c["evidence_file"]))
        if e["coverage"].get("obligations")!=e["coverage"].get("discharged"): print("MISMATCH", c["evidence_file"])
    except FileNotFoundError: pass
print("manifest valid; properties covered:", len(ids))
