#!/usr/bin/env python3
import json, sys, glob, jsonschema
m = json.load(open('/verif/MANIFEST.json'))
jsonschema.validate(m, json.load(open('/root/.vp/MANIFEST.schema.json')))
es = json.load(open('/root/.vp/EVIDENCE.schema.json'))
for c in m['checks']:
    f = c['evidence_file']
    try:
        jsonschema.validate(json.load(open(f)), es)
    except FileNotFoundError:
        print("missing evidence", f)
ids = {c['property_id'] for c in m['checks']} | {n['property_id'] for n in m.get('not_applicable', [])}
print("manifest valid; properties covered:", len(ids))
