#!/bin/bash
# benign_matrix.sh [b<k> ...]: run every behaviour-preserving edit of /verif/benign (default: all) against the checks
# of the properties listed in its props.txt, in a scratch worktree of /repo (VERIF_REPO) with a scratch copy of the
# verifier state (VERIF_DIR). A check that does not exit 0 on such an edit is a false alarm. Results: benign/<k>/result.txt.
export GOFLAGS=-mod=mod GOPROXY=off GOSUMDB=off GOTOOLCHAIN=local GOMAXPROCS=${GOMAXPROCS:-8}
SR=/tmp/benignrepo${MATRIX_ID:-}; SV=/tmp/benignverif${MATRIX_ID:-}
rm -rf $SV; git -C /repo worktree remove --force $SR 2>/dev/null; rm -rf $SR
git -C /repo worktree add --detach $SR HEAD >/dev/null 2>&1 || exit 2
mkdir -p $SV; cp -r /verif/baseline /verif/stubs /verif/known_findings.jsonl /verif/replays $SV/
LIST="$@"; [ -z "$LIST" ] && LIST=$(ls /verif/benign)
for S in $LIST; do
  git -C $SR checkout -q -- . ; git -C $SR clean -fdq
  if ! git -C $SR apply /verif/benign/$S/patch.diff 2>/dev/null; then echo "$S: patch does not apply" | tee /verif/benign/$S/result.txt; continue; fi
  : > /verif/benign/$S/result.txt
  for Q in $(cat /verif/benign/$S/props.txt); do
    OUT=$(VERIF_REPO=$SR VERIF_DIR=$SV ${GOVC_BIN:-/verif/govc/govc} check $Q --tier quick 2>&1); RC=$?
    echo "$S vs $Q: exit=$RC" | tee -a /verif/benign/$S/result.txt
    echo "$OUT" | grep -E "^(VIOLATION|UNBOUND|ERROR|UNDECIDED)" | cut -c1-300 | head -8 | tee -a /verif/benign/$S/result.txt
  done
done
git -C /repo worktree remove --force $SR; rm -rf $SV $SR
