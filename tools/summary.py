#!/usr/bin/env python3
"""Totals over /verif/evidence/*.json (functions under contract, obligations, queries, solver time, trusted base)."""
import json, glob, os
here = os.path.dirname(os.path.dirname(os.path.abspath(__file__)))
funcs, trusted = set(), set()
obl = dis = q = 0
t = wall = 0.0
known = 0
for f in sorted(glob.glob(os.path.join(here, "evidence", "C*.json"))):
    e = json.load(open(f)); c = e["coverage"]
    funcs |= set(c.get("functions_under_contract") or [])
    trusted |= set(x for x in (c.get("trusted_base") or []) if not x.startswith("stub:"))
    obl += c["obligations"]; dis += c["discharged"]; q += c.get("smt_queries", 0)
    t += c.get("solver_time_s", 0); wall += e.get("wall_s", 0); known += len(c.get("known_findings") or [])
    print("%s: %4d obligations, %5d queries, %6.1fs wall, %d functions%s" % (e["property_id"], c["obligations"], c.get("smt_queries", 0), e.get("wall_s", 0), len(c.get("functions_under_contract") or []), (", known findings: %d" % len(c["known_findings"])) if c.get("known_findings") else ""))
print("TOTAL: %d distinct functions verified, %d obligations (%d discharged) summed over the checks, %d SMT queries, solver time %.0fs, sum of wall times %.0fs, open findings reported %d" % (len(funcs), obl, dis, q, t, wall, known))
print("trusted (non-stub):", ", ".join(sorted(trusted)))
