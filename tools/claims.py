# Per-property claim texts. Edited as the contracts grow; mkmanifest.py turns this into MANIFEST.json.
CLAIMS = {
 "C11": {
  "text": "Proved for all inputs, per function: node-level contracts of storage/page.go that the B+ tree shape invariants rest on (binary search findCellOffsetByKey with loop invariant and termination, cellKey, isFull against the capacity constants, appendLeafCell/appendInternalCell/insertLeafCell as sequence insertions preserving slot well-formedness). The whole-tree induction (A-ASC, reachability through fetch) is argued on paper in DESIGN.md and is not machine-checked.",
  "note": "Trusted: govc's SSA->SMT translation, the SMT solvers, heap type invariants. Not decided: induction over the page graph (tree predicate across fetch), see DESIGN.md §5.",
 },
}
CLAIMS["C09"] = {
  "text": "Proved for all token lists: every production of sql/parser.go (28 productions plus match/requireMatch/curType/hasType/requireInt/unexpectedTypeErr), TokenList, Token.Val, tokenScanner.Cur/Next, stripQuotes and engine.parseSQL is free of run-time panics (index, slice bounds, nil dereference, failed type assertion) and terminates: each production and each list loop strictly decreases the measure (remaining tokens, production rank). The copied text/scanner (sql/go_scanner.go) is trusted, not verified.",
  "note": "Trusted: sql.Scanner.{Init,Scan,Peek,TokenText} (copied Go text/scanner: assumed to terminate, not to panic and to return some string); axioms about package-level tables (EOFToken, literals) stated in sql/verif_contracts.go; memory exhaustion not modelled. The tokenising loop of parseSQL terminates only under the scanner assumption.",
 }
CLAIMS["C15"] = {
  "text": "Proved for all cache states and arguments: LRUCache.get/set, NewLRU and fileStore.setCache against an abstract recency sequence (container/list modelled by positions): the representation invariant (list and index map in bijection, size = length <= capacity) is preserved; a hit returns the stored page and moves it to the front keeping the relative order of the others; a miss with room pushes to the front and evicts nothing; a miss on a full cache evicts exactly the clean entry with the greatest position (least recently used among the clean ones), never a dirty one, and is refused iff every entry is dirty; ErrLRUCacheFull iff refused. Histories follow by induction on the invariant.",
  "note": "Trusted: the position model of container/list in /verif/stubs/list.spec (Back, Prev, PushFront, MoveToFront, Remove, Len, New); Go map semantics as modelled (presence array + counted length).",
 }
ALL = ["C%02d" % i for i in range(1, 21)]
NOT_APPLICABLE = {p: "check not built yet in this session (work in progress; see DESIGN.md §8 build order)" for p in ALL if p not in CLAIMS}
