# Per-property claim texts live in claims.json (edited as the contracts grow); mkmanifest.py turns them into MANIFEST.json.
import json, os
_here = os.path.dirname(os.path.abspath(__file__))
CLAIMS = json.load(open(os.path.join(_here, "claims.json")))
ALL = ["C%02d" % i for i in range(1, 21)]
NOT_APPLICABLE_REASONS = json.load(open(os.path.join(_here, "not_applicable.json")))
NOT_APPLICABLE = {p: NOT_APPLICABLE_REASONS[p] for p in ALL if p not in CLAIMS}
