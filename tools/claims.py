# Per-property claim texts. Edited as the contracts grow; mkmanifest.py turns this into MANIFEST.json.
CLAIMS = {
 "C11": {
  "text": "Proved for all inputs, per function: node-level contracts of storage/page.go that the B+ tree shape invariants rest on (binary search findCellOffsetByKey with loop invariant and termination, cellKey, isFull against the capacity constants, appendLeafCell/appendInternalCell/insertLeafCell as sequence insertions preserving slot well-formedness). The whole-tree induction (A-ASC, reachability through fetch) is argued on paper in DESIGN.md and is not machine-checked.",
  "note": "Trusted: govc's SSA->SMT translation, the SMT solvers, heap type invariants. Not decided: induction over the page graph (tree predicate across fetch), see DESIGN.md §5.",
 },
}
ALL = ["C%02d" % i for i in range(1, 21)]
NOT_APPLICABLE = {p: "check not built yet in this session (work in progress; see DESIGN.md §8 build order)" for p in ALL if p not in CLAIMS}
