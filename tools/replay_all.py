#!/usr/bin/env python3
"""Runs every replay named in known_findings.jsonl against the real code (go test -overlay through govc check --replay):
a fixed finding must pass, an open one must reproduce. Maintenance tool; the thorough tier of each check does the same for its own property."""
import json, subprocess, os, sys
here = os.path.dirname(os.path.dirname(os.path.abspath(__file__)))
seen, bad = set(), 0
for l in open(os.path.join(here, "known_findings.jsonl")):
    l = l.strip()
    if not l or l.startswith("#"):
        continue
    k = json.loads(l)
    r = k.get("replay", "")
    if not r.endswith("_test.go") or r in seen:
        continue
    seen.add(r)
    p = subprocess.run([os.path.join(here, "govc", "govc"), "check", k["property"], "--replay", os.path.join(here, r)], capture_output=True, text=True, cwd=here)
    rep = "VIOLATION" in p.stdout
    ok = (rep and k["status"] == "open") or ((not rep) and k["status"] == "fixed")
    bad += 0 if ok else 1
    print(("ok  " if ok else "BAD "), k["status"], "reproduces" if rep else "passes", r)
sys.exit(1 if bad else 0)
