#!/bin/bash
# confirm_seed.sh <prop> <srcdir> <name>: independently confirm a seeded change in a scratch worktree
# (suite passes with the change; demo fails with it and passes without), then store it under /verif/seeded/<name>/.
set -u
PROP=$1; SRC=$2; NAME=$3
export GOFLAGS=-mod=mod GOPROXY=off GOSUMDB=off GOTOOLCHAIN=local
WT=/tmp/seedverify/$NAME
rm -rf "$WT"; mkdir -p /tmp/seedverify
git -C /repo worktree add -q --detach "$WT" HEAD || exit 2
cleanup() { git -C /repo worktree remove --force "$WT" 2>/dev/null; }
trap cleanup EXIT
cd "$WT"
PKGDIR=$(head -5 "$SRC/demo_test.go" | grep -o 'package dir: *[^ ]*' | head -1 | sed 's/package dir: *//')
[ -z "$PKGDIR" ] && { echo "$NAME: no package dir in demo"; exit 2; }
if ! git apply --check "$SRC/patch.diff" 2>/dev/null; then echo "$NAME: patch does not apply to current HEAD"; exit 3; fi
# demo on clean tree
cp "$SRC/demo_test.go" "$PKGDIR/zz_seed_demo_test.go"
CLEAN=$(go test -vet=off -count=1 -timeout 120s ./$PKGDIR 2>&1 | tail -3)
echo "$CLEAN" | grep -q "^ok" && CLEAN_OK=1 || CLEAN_OK=0
rm -f "$PKGDIR/zz_seed_demo_test.go"
git apply "$SRC/patch.diff"
BUILD=$(go build ./... 2>&1 | tail -3)
SUITE=$(go test -vet=off -count=1 -timeout 300s ./... 2>&1)
echo "$SUITE" | grep -q -E "FAIL|panic" && SUITE_OK=0 || SUITE_OK=1
cp "$SRC/demo_test.go" "$PKGDIR/zz_seed_demo_test.go"
MUT=$(go test -vet=off -count=1 -timeout 120s ./$PKGDIR 2>&1 | tail -5)
echo "$MUT" | grep -q -E "^(FAIL|---)|FAIL" && MUT_FAIL=1 || MUT_FAIL=0
echo "$NAME: clean_demo_ok=$CLEAN_OK suite_ok_with_change=$SUITE_OK demo_fails_with_change=$MUT_FAIL"
if [ "$CLEAN_OK" = 1 ] && [ "$SUITE_OK" = 1 ] && [ "$MUT_FAIL" = 1 ]; then
  D=/verif/seeded/$NAME; mkdir -p "$D"
  cp "$SRC/patch.diff" "$D/patch.diff"; cp "$SRC/demo_test.go" "$D/demo_test.go"
  python3 - "$SRC/meta.json" "$D/meta.json" "$PROP" <<'PY'
import json,sys
m=json.load(open(sys.argv[1]))
m['property']=sys.argv[3]
m['confirmed_by_me']={'suite_passes_with_change':True,'demo_fails_with_change':True,'demo_passes_without_change':True,
  'how':'tools/confirm_seed.sh in a scratch worktree of /repo HEAD (go build ./..., go test -vet=off -count=1 ./..., demo copied into its package directory)'}
json.dump(m,open(sys.argv[2],'w'),indent=1)
PY
  exit 0
fi
exit 1
