#!/bin/bash
# seed_matrix.sh [seed ...]: run every seeded change (default: all) against the check of its own
# property in a scratch worktree of /repo (VERIF_REPO) with a scratch copy of the verifier state
# (VERIF_DIR), so /repo and /verif/evidence are left alone. Results: /verif/seeded/<id>/result.txt.
export GOFLAGS=-mod=mod GOPROXY=off GOSUMDB=off GOTOOLCHAIN=local GOMAXPROCS=${GOMAXPROCS:-8}
SR=/tmp/seedrepo${MATRIX_ID:-}; SV=/tmp/seedverif${MATRIX_ID:-}   # MATRIX_ID lets several matrices run side by side
rm -rf $SV; git -C /repo worktree remove --force $SR 2>/dev/null; rm -rf $SR
git -C /repo worktree add --detach $SR HEAD >/dev/null 2>&1 || exit 2
mkdir -p $SV; cp -r /verif/baseline /verif/stubs /verif/known_findings.jsonl /verif/replays $SV/
CLAIMED=$(python3 -c "import json; print(' '.join(c['property_id'] for c in json.load(open('/verif/MANIFEST.json'))['checks']))")
SEEDS="$@"; [ -z "$SEEDS" ] && SEEDS=$(ls /verif/seeded)
for S in $SEEDS; do
  P=${S%%-*}
  git -C $SR checkout -q -- . ; git -C $SR clean -fdq
  if ! git -C $SR apply /verif/seeded/$S/patch.diff 2>/dev/null; then echo "$S: patch does not apply" | tee /verif/seeded/$S/result.txt; continue; fi
  PROPS="$P"; [ -f /verif/seeded/$S/also.txt ] && PROPS="$P $(cat /verif/seeded/$S/also.txt)"
  : > /verif/seeded/$S/result.txt
  for Q in $PROPS; do
    if ! echo " $CLAIMED " | grep -q " $Q "; then echo "$S vs $Q: not claimed" | tee -a /verif/seeded/$S/result.txt; continue; fi
    OUT=$(VERIF_REPO=$SR VERIF_DIR=$SV ${GOVC_BIN:-/verif/govc/govc} check $Q --tier quick 2>&1); RC=$?
    echo "$S vs $Q: exit=$RC" | tee -a /verif/seeded/$S/result.txt
    echo "$OUT" | grep -E "^(VIOLATION|UNBOUND|KNOWN|ERROR|UNDECIDED)" | cut -c1-300 | head -5 | tee -a /verif/seeded/$S/result.txt
  done
done
git -C /repo worktree remove --force $SR; rm -rf $SV $SR
