#!/usr/bin/env python3
"""core.py <file.smt2>: minimal unsatisfiable subset of the assertions (delta debugging with z3)."""
import sys,subprocess
lines=open(sys.argv[1]).read().split('\n')
idx=[i for i,l in enumerate(lines) if l.startswith('(assert')]
def unsat(keep):
    txt='\n'.join(l for i,l in enumerate(lines) if not l.startswith('(assert') or i in keep)
    open('/tmp/dd.smt2','w').write(txt)
    r=subprocess.run(['z3','-T:5','/tmp/dd.smt2'],capture_output=True,text=True).stdout.split('\n')[0]
    return r=='unsat'
keep=set(idx)
if not unsat(keep):
    print("not unsat"); sys.exit(1)
for i in list(idx):
    k=keep-{i}
    if unsat(k): keep=k
for i in sorted(keep): print(i+1, lines[i][:int(sys.argv[2]) if len(sys.argv)>2 else 300])
