#!/usr/bin/env python3
"""Prints the seeded-change table (markdown) from /verif/seeded/*/result.txt and meta.json."""
import os, json, re
root = os.path.join(os.path.dirname(os.path.dirname(os.path.abspath(__file__))), "seeded")
rows = []
for s in sorted(os.listdir(root)):
    d = os.path.join(root, s)
    if not os.path.isdir(d):
        continue
    meta = json.load(open(os.path.join(d, "meta.json")))
    res = open(os.path.join(d, "result.txt")).read() if os.path.exists(os.path.join(d, "result.txt")) else ""
    if "not claimed" in res:
        verdict, obl = "n/a", ""
    elif "does not apply" in res:
        verdict, obl = "stale", "patch no longer applies (the function was changed by a fix commit)"
    elif "VIOLATION" in res:
        verdict = "✓"
        obl = ", ".join(sorted(set(m.split("/", 1)[1] if "/" in m else m for m in re.findall(r"obligation=(\S+)", res)))[:3])
        fn = re.findall(r"obligation=(\S+?)/", res)
        obl = (fn[0] + ": " if fn else "") + obl
    elif "UNDECIDED" in res:
        verdict, obl = "U", ", ".join(re.findall(r"answer\): (\S+)", res)[:2])
    elif "exit=0" in res:
        verdict, obl = "–", ""
    else:
        verdict, obl = "?", res.strip()[:80]
    summ = meta["summary"].split(". ")[0][:150]
    rows.append((s, verdict, obl, summ))
print("| seed | result | failing obligation(s) | change |")
print("|---|---|---|---|")
for r in rows:
    print("| %s | %s | %s | %s |" % r)
c = {}
for r in rows:
    c[r[1]] = c.get(r[1], 0) + 1
print()
print("Totals: " + ", ".join("%s: %d" % kv for kv in sorted(c.items())))
