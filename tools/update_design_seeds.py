#!/usr/bin/env python3
"""Replaces the seed table in DESIGN.md (between the SEED-TABLE markers) by the output of seed_table.py."""
import os, subprocess, re
here = os.path.dirname(os.path.dirname(os.path.abspath(__file__)))
tab = subprocess.check_output(["python3", os.path.join(here, "tools", "seed_table.py")]).decode()
p = os.path.join(here, "DESIGN.md")
s = open(p).read()
s = re.sub(r"<!-- SEED-TABLE-BEGIN -->.*?<!-- SEED-TABLE-END -->", "<!-- SEED-TABLE-BEGIN -->\n" + tab.replace("\\", "\\\\") + "<!-- SEED-TABLE-END -->", s, flags=re.S)
open(p, "w").write(s)
print("seed table updated")
