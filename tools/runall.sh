#!/bin/bash
# runall.sh [ids...]: run the quick check of every claimed property (or the given ones) and print one summary line each.
cd /verif
IDS="$@"; [ -z "$IDS" ] && IDS=$(python3 -c "import json; print(' '.join(c['property_id'] for c in json.load(open('MANIFEST.json'))['checks']))")
for P in $IDS; do
  T0=$(date +%s)
  OUT=$(./check $P --tier quick 2>&1); RC=$?
  echo "== $P exit=$RC $(( $(date +%s) - T0 ))s :: $(echo "$OUT" | tail -1 | cut -c1-200)"
  echo "$OUT" | grep -E "^(VIOLATION|UNBOUND|KNOWN-FINDING|ERROR|UNDECIDED|CONTRACT)" | cut -c1-260 | head -12
done
