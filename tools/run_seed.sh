#!/bin/bash
# run_seed.sh <seed-name> <prop> [<prop>...]: apply a seeded change to /repo, run the quick checks, undo the change.
NAME=$1; shift
cd /repo || exit 2
if [ -n "$(git status --porcelain)" ]; then echo "/repo not clean"; exit 2; fi
git apply /verif/seeded/$NAME/patch.diff || { echo "$NAME: patch does not apply"; exit 3; }
trap 'git -C /repo checkout -- . ' EXIT
cd /verif
for P in "$@"; do
  OUT=$(./check $P --tier quick 2>&1); RC=$?
  echo "== $NAME vs $P: exit=$RC"
  echo "$OUT" | grep -E "^(VIOLATION|UNBOUND|KNOWN|ERROR)" | cut -c1-260 | head -6
done
