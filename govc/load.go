package main

import (
	"crypto/sha256"
	"fmt"
	"go/ast"
	"go/types"
	"io"
	"os"
	"path/filepath"
	"sort"
	"strings"

	"golang.org/x/tools/go/packages"
	"golang.org/x/tools/go/ssa"
	"golang.org/x/tools/go/ssa/ssautil"
)

type Program struct {
	repo     string
	pkgs     []*packages.Package
	ssaProg  *ssa.Program
	ssaPkgs  map[string]*ssa.Package   // short name -> ssa package
	typPkgs  map[string]*types.Package // short name -> types package (including imports)
	funcs    map[string]*ssa.Function  // key -> function
	contract map[string]*Contract      // key -> contract
	specFn   map[string]*SpecFunc      // "pkg.name" -> spec function
	specCst  map[string]string         // "pkg.name" -> integer literal
	ghosts   map[string]*GhostVar      // name -> ghost var
	owned    map[string]bool           // "pkg.Type.field": slice fields whose backing array belongs to exactly one object
	lemmas   []*Lemma
	axioms   []*Lemma
	srcHash  string
	files    []string // contract files read
}

// shortPkg returns the short name used in keys for a package path.
func shortPkg(path string) string {
	if i := strings.LastIndex(path, "/"); i >= 0 {
		return path[i+1:]
	}
	return path
}

func funcKey(fn *ssa.Function) string {
	if fn.Parent() != nil {
		// closure: parent key + $n
		name := fn.Name() // e.g. "getRelationFileOffset$1"
		pk := funcKey(fn.Parent())
		if i := strings.LastIndex(name, "$"); i >= 0 {
			return pk + name[i:]
		}
		return pk + "$" + name
	}
	pkg := ""
	if fn.Pkg != nil {
		pkg = shortPkg(fn.Pkg.Pkg.Path())
	} else if fn.Signature.Recv() != nil {
		if n := recvNamed(fn.Signature.Recv().Type()); n != nil && n.Obj().Pkg() != nil {
			pkg = shortPkg(n.Obj().Pkg().Path())
		}
	}
	if recv := fn.Signature.Recv(); recv != nil {
		t := recv.Type()
		star := ""
		if p, ok := t.(*types.Pointer); ok {
			star = "*"
			t = p.Elem()
		}
		n := ""
		if nt, ok := t.(*types.Named); ok {
			n = nt.Obj().Name()
		} else {
			n = typeName(t)
		}
		return fmt.Sprintf("%s.(%s%s).%s", pkg, star, n, fn.Name())
	}
	return pkg + "." + fn.Name()
}

func recvNamed(t types.Type) *types.Named {
	if p, ok := t.(*types.Pointer); ok {
		t = p.Elem()
	}
	n, _ := t.(*types.Named)
	return n
}

func loadProgram(repo string, patterns []string) (*Program, error) {
	cfg := &packages.Config{
		Mode:       packages.LoadAllSyntax,
		Dir:        repo,
		BuildFlags: []string{"-tags=verif"},
		Env:        append(os.Environ(), "GOFLAGS=-mod=mod", "GOPROXY=off", "GOSUMDB=off", "GOTOOLCHAIN=local"),
	}
	pkgs, err := packages.Load(cfg, patterns...)
	if err != nil {
		return nil, err
	}
	var errs []string
	packages.Visit(pkgs, nil, func(p *packages.Package) {
		for _, e := range p.Errors {
			errs = append(errs, e.Error())
		}
	})
	if len(errs) > 0 {
		return nil, fmt.Errorf("package errors: %s", strings.Join(errs, "; "))
	}
	prog, spkgs := ssautil.AllPackages(pkgs, ssa.GlobalDebug|ssa.BareInits)
	prog.Build()
	p := &Program{
		repo: repo, pkgs: pkgs, ssaProg: prog,
		ssaPkgs: map[string]*ssa.Package{}, typPkgs: map[string]*types.Package{},
		funcs: map[string]*ssa.Function{}, contract: map[string]*Contract{},
		specFn: map[string]*SpecFunc{}, specCst: map[string]string{}, ghosts: map[string]*GhostVar{},
	}
	for i, sp := range spkgs {
		if sp == nil {
			continue
		}
		name := shortPkg(pkgs[i].PkgPath)
		p.ssaPkgs[name] = sp
	}
	packages.Visit(pkgs, nil, func(pk *packages.Package) {
		n := shortPkg(pk.PkgPath)
		if _, dup := p.typPkgs[n]; !dup || strings.Contains(pk.PkgPath, "mk6i/mkdb") {
			p.typPkgs[n] = pk.Types
		}
	})
	for fn := range ssautil.AllFunctions(prog) {
		if fn.Synthetic != "" && fn.Parent() == nil && !strings.Contains(fn.Synthetic, "package initializer") {
			continue
		}
		k := funcKey(fn)
		if old, ok := p.funcs[k]; ok && old.Pkg != nil && strings.Contains(old.Pkg.Pkg.Path(), "mk6i/mkdb") {
			continue
		}
		p.funcs[k] = fn
	}
	// source hash: all .go files of the loaded mkdb packages + contract files
	h := sha256.New()
	var files []string
	for _, pk := range pkgs {
		files = append(files, pk.GoFiles...)
	}
	sort.Strings(files)
	for _, f := range files {
		if fh, err := os.Open(f); err == nil {
			io.WriteString(h, f)
			io.Copy(h, fh)
			fh.Close()
		}
	}
	p.srcHash = fmt.Sprintf("%x", h.Sum(nil))[:16]
	return p, nil
}

// contractFiles returns the verif_contracts.go files of the loaded packages plus the stub specs.
func (p *Program) contractFiles(stubDir string) []string {
	var out []string
	for _, pk := range p.pkgs {
		for _, f := range pk.GoFiles {
			if filepath.Base(f) == "verif_contracts.go" {
				out = append(out, f)
			}
		}
	}
	if stubDir != "" {
		m, _ := filepath.Glob(filepath.Join(stubDir, "*.spec"))
		sort.Strings(m)
		out = append(out, m...)
	}
	return out
}

// sourceVarName tries to find the source-level variable name of an SSA value via DebugRefs.
func debugNames(fn *ssa.Function) map[ssa.Value][]string {
	out := map[ssa.Value][]string{}
	for _, b := range fn.Blocks {
		for _, in := range b.Instrs {
			if d, ok := in.(*ssa.DebugRef); ok && !d.IsAddr {
				if id, ok := d.Expr.(*ast.Ident); ok {
					out[d.X] = append(out[d.X], id.Name)
				}
			}
		}
	}
	return out
}
