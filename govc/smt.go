package main

// SMT term layer: terms are SMT-LIB text with a sort tag and (optionally) the Go type they
// came from. Declarations are collected per verification context.

import (
	"fmt"
	"go/types"
	"os"
	"regexp"
	"sort"
	"strconv"
	"strings"
)

// Value is a symbolic value: an SMT term plus the Go type it models.
type Value struct {
	T     string     // SMT-LIB term
	Sort  string     // SMT sort ("Int", "Bool", "Str", "Val", "Slice", datatype name, ...)
	GoT   types.Type // Go type (may be nil for pure spec values)
	Addr  *Addr      // non-nil: this value is a pointer to a non-struct location (meta-level address)
	Tuple []Value    // non-nil: tuple value (multi-result call, comma-ok)
}

// Addr is a meta-level address (pointer to something that is not a whole heap struct).
type Addr struct {
	Kind   string // "field", "elem", "cell", "global"
	Map    string // heap map name
	Obj    string // object ref term (field/cell), or base term (elem)
	Idx    string // element index term (elem)
	Path   []sel  // selector path into a datatype value stored at the location
	ElemT  types.Type
	Global string
}

type sel struct {
	Name string // selector function name
	Sort string // sort of the selected component
	Ctor string // constructor of the enclosing datatype
	All  []selField
	Idx  int
	GoT  types.Type
}

type selField struct {
	Name string
	Sort string
}

func app(f string, args ...string) string {
	if len(args) == 0 {
		return f
	}
	return "(" + f + " " + strings.Join(args, " ") + ")"
}

func and(xs ...string) string {
	var ys []string
	for _, x := range xs {
		if x == "true" || x == "" {
			continue
		}
		ys = append(ys, x)
	}
	if len(ys) == 0 {
		return "true"
	}
	if len(ys) == 1 {
		return ys[0]
	}
	return "(and " + strings.Join(ys, " ") + ")"
}

func or(xs ...string) string {
	if len(xs) == 0 {
		return "false"
	}
	if len(xs) == 1 {
		return xs[0]
	}
	return "(or " + strings.Join(xs, " ") + ")"
}

func not(x string) string {
	if x == "true" {
		return "false"
	}
	if x == "false" {
		return "true"
	}
	return "(not " + x + ")"
}

func implies(a, b string) string {
	if a == "true" {
		return b
	}
	return "(=> " + a + " " + b + ")"
}

func ite(c, a, b string) string { return "(ite " + c + " " + a + " " + b + ")" }
func eq(a, b string) string     { return "(= " + a + " " + b + ")" }
func sel2(a, i string) string   { return "(select " + a + " " + i + ")" }
func sto(a, i, v string) string { return "(store " + a + " " + i + " " + v + ")" }

func intLit(n int64) string {
	if n < 0 {
		return fmt.Sprintf("(- %d)", -n)
	}
	return fmt.Sprintf("%d", n)
}

func bigLit(s string) string {
	if strings.HasPrefix(s, "-") {
		return "(- " + s[1:] + ")"
	}
	return s
}

// Ctx collects declarations for one verification unit (one function).
type Ctx struct {
	decls      []string          // const/fun declarations in order
	declared   map[string]bool   // names
	sorts      *SortReg          // datatype registry (shared)
	fresh      int               // fresh-name counter
	strLits    map[string]string // string literal -> const name
	strOrder   []string
	axioms     []string // global axioms (string literals, emb functions...)
	axiomSeen  map[string]bool
	errIDs     int
	epochs     int
	csort      map[string]string // constant name -> sort
	defs       map[string]string // heap map version constant -> the term it was defined as (heapSet)
	allocs     map[string]bool   // allocation constants (pairwise distinct)
	specAxioms map[string]bool   // formulas assumed from 'axiom' declarations (dropped from a query they are irrelevant to)
}

var absSymRe = regexp.MustCompile(`abs![A-Za-z0-9_.]+`)

// dropIrrelevantAxioms removes declared axioms about abstract spec functions none of which occurs
// anywhere else in the query (sound: fewer hypotheses).
func (c *Ctx) dropIrrelevantAxioms(pc []string, goal string) []string {
	if len(c.specAxioms) == 0 {
		return pc
	}
	used := map[string]bool{}
	for _, m := range absSymRe.FindAllString(goal, -1) {
		used[m] = true
	}
	for _, p := range pc {
		if c.specAxioms[p] {
			continue
		}
		if strings.Contains(p, "abs!") {
			for _, m := range absSymRe.FindAllString(p, -1) {
				used[m] = true
			}
		}
	}
	var out []string
	for _, p := range pc {
		if c.specAxioms[p] {
			syms := absSymRe.FindAllString(p, -1)
			if len(syms) > 0 {
				rel := false
				for _, m := range syms {
					if used[m] {
						rel = true
					}
				}
				if !rel {
					continue
				}
			}
		}
		out = append(out, p)
	}
	return out
}

// resolveSel reads map version m at key k through the store chain recorded in defs, as far as the
// keys can be compared syntactically (equal text, or two different allocation constants).
func (c *Ctx) resolveSel(m, k string) string {
	for i := 0; i < 64; i++ {
		d, ok := c.defs[m]
		if !ok {
			break
		}
		t, err := parseSx(d)
		if err != nil || t.head() != "store" || len(t.list) != 4 {
			break
		}
		k0 := t.list[2].String()
		if k0 == k {
			return t.list[3].String()
		}
		if c.allocs[k0] && c.allocs[k] {
			m = t.list[1].String()
			continue
		}
		break
	}
	return sel2(m, k)
}

func newCtx(sr *SortReg) *Ctx {
	return &Ctx{declared: map[string]bool{}, sorts: sr, strLits: map[string]string{}, axiomSeen: map[string]bool{}}
}

func envInt(name string, def int) int {
	if v := os.Getenv(name); v != "" {
		if n, err := strconv.Atoi(v); err == nil {
			return n
		}
	}
	return def
}

func mangle(s string) string {
	var b strings.Builder
	for _, r := range s {
		switch {
		case r >= 'a' && r <= 'z', r >= 'A' && r <= 'Z', r >= '0' && r <= '9', r == '_', r == '.', r == '!', r == '$':
			b.WriteRune(r)
		case r == '*':
			b.WriteString("ptr.")
		case r == '[':
			b.WriteString("_L")
		case r == ']':
			b.WriteString("R_")
		case r == '/':
			b.WriteString(".")
		case r == ' ':
		case r == '(' || r == ')':
			b.WriteString("_")
		default:
			b.WriteString(fmt.Sprintf("_u%x_", r))
		}
	}
	return b.String()
}

func (c *Ctx) constSort(name string) string {
	if c.csort == nil {
		return ""
	}
	return c.csort[name]
}

func (c *Ctx) declConst(name, sort string) string {
	if !c.declared[name] {
		if c.csort == nil {
			c.csort = map[string]string{}
		}
		c.csort[name] = sort
		c.declared[name] = true
		c.decls = append(c.decls, fmt.Sprintf("(declare-fun %s () %s)", name, sort))
	}
	return name
}

func (c *Ctx) declFun(name string, args []string, ret string) string {
	if !c.declared[name] {
		c.declared[name] = true
		c.decls = append(c.decls, fmt.Sprintf("(declare-fun %s (%s) %s)", name, strings.Join(args, " "), ret))
	}
	return name
}

func (c *Ctx) freshConst(prefix, sort string) string {
	c.fresh++
	name := fmt.Sprintf("%s!%d", mangle(prefix), c.fresh)
	return c.declConst(name, sort)
}

func (c *Ctx) axiom(a string) {
	if c.axiomSeen[a] {
		return
	}
	c.axiomSeen[a] = true
	c.axioms = append(c.axioms, a)
}

// strLit returns a constant of sort Str for a Go string literal, with length and byte axioms.
func (c *Ctx) strLit(s string) string {
	if n, ok := c.strLits[s]; ok {
		return n
	}
	if s == "" {
		c.strLits[s] = "str!empty"
		c.strOrder = append(c.strOrder, s)
		return "str!empty"
	}
	name := fmt.Sprintf("str!%d", len(c.strLits))
	c.strLits[s] = name
	c.strOrder = append(c.strOrder, s)
	c.declConst(name, "Str")
	c.axiom(eq(app("slen", name), intLit(int64(len(s)))))
	if len(s) <= 16 {
		for i := 0; i < len(s); i++ {
			c.axiom(eq(app("sat", name, intLit(int64(i))), intLit(int64(s[i]))))
		}
	}
	c.axiom(eq(app("strid", name), intLit(int64(len(c.strLits)))))
	return name
}

const prelude = `(set-option :produce-models true)
(set-logic ALL)
(declare-sort Str 0)
(declare-fun slen (Str) Int)
(declare-fun sat (Str Int) Int)
(declare-fun strid (Str) Int)
(declare-fun ssub (Str Int Int) Str)
(declare-fun sconcat (Str Str) Str)
(declare-fun supper (Str) Str)
(declare-fun slower (Str) Str)
(declare-fun scmp (Str Str) Int)
(declare-fun str!empty () Str)
(assert (= (slen str!empty) 0))
(assert (forall ((s Str)) (! (and (>= (slen s) 0) (<= (slen s) 9223372036854775807)) :pattern ((slen s)))))
(declare-datatypes ((Slice 0)) (((mk-slice (sbase Int) (soff Int) (slen_ Int) (scap Int)))))
(define-fun tdiv ((a Int) (b Int)) Int (ite (>= a 0) (ite (> b 0) (div a b) (- (div a (- b)))) (ite (> b 0) (- (div (- a) b)) (div (- a) (- b)))))
(define-fun tmod ((a Int) (b Int)) Int (- a (* b (tdiv a b))))
(define-fun wrapu ((x Int) (m Int)) Int (ite (and (<= 0 x) (< x m)) x (mod x m)))
(define-fun wraps ((x Int) (h Int)) Int (ite (and (<= (- h) x) (< x h)) x (- (mod (+ x h) (* 2 h)) h)))
`

// render builds a complete SMT-LIB script: prelude + datatypes + decls + assumptions + negated goal.
// For proof goals, positive universal quantifiers of the goal are skolemised and the universally
// quantified hypotheses are additionally instantiated at the candidate index terms (sound; the
// quantified hypotheses themselves stay in the query).
func (c *Ctx) render(pc []string, goal string, cover bool, cands []string, lens []string, lite bool) string {
	var b strings.Builder
	// an implication goal is proved from its antecedent: the antecedent joins the hypotheses (so that
	// its quantifiers are skolemised / instantiated like those of any other hypothesis)
	for !cover {
		if !strings.HasPrefix(goal, "(=> ") {
			break
		}
		t, err := parseSx(goal)
		if err != nil || t.head() != "=>" || len(t.list) != 3 {
			break
		}
		pc = append(append([]string(nil), pc...), t.list[1].String())
		goal = t.list[2].String()
	}
	pc = c.dropIrrelevantAxioms(pc, goal)
	if !cover && envInt("GOVC_MP", 1) == 1 {
		pc = modusPonens(pc)
	}
	b.WriteString(prelude)
	b.WriteString(c.sorts.render())
	for _, d := range c.decls {
		b.WriteString(d)
		b.WriteByte('\n')
	}
	var patAxioms []string // lite mode: axioms with a pattern are instantiated by syntactic matching at the end
	for _, a := range c.axioms {
		if lite && !cover && envInt("GOVC_EMATCH", 1) == 1 && strings.HasPrefix(a, "(forall ") && strings.Contains(a, ":pattern") {
			patAxioms = append(patAxioms, a)
			continue
		}
		b.WriteString("(assert " + a + ")\n")
	}
	bodyStart := b.Len()
	// distinctness of string literals
	if len(c.strOrder) > 1 {
		var names []string
		for _, s := range c.strOrder {
			names = append(names, c.strLits[s])
		}
		b.WriteString("(assert (distinct " + strings.Join(names, " ") + "))\n")
	}
	for _, p := range pc {
		if p == "true" {
			continue
		}
		if lite && !cover && (strings.Contains(p, "(forall ") || strings.Contains(p, "(exists ")) {
			if envInt("GOVC_EMATCH", 1) == 1 && strings.HasPrefix(p, "(forall ((k! Int)) (! ") {
				patAxioms = append(patAxioms, p) // definitional facts of the stream model: matched syntactically as well
			}
			continue // written below in weakened form
		}
		b.WriteString("(assert " + p + ")\n")
	}
	if cover {
		if goal != "" && goal != "true" {
			b.WriteString("(assert " + goal + ")\n")
		}
		b.WriteString("(check-sat)\n")
		return b.String()
	}
	n := 0
	in := &instantiator{limit: envInt("GOVC_INST_LIMIT", 1000), seen: map[string]bool{}, fresh: &n, max2: envInt("GOVC_CANDS2", 7), lens: lens}
	g := goal
	if strings.Contains(goal, "(forall ") {
		if t, err := parseSx(goal); err == nil {
			g = in.skolemize(t).String()
		}
	}
	// candidate order: skolem constants, then the path's index terms (most recent first), then variants
	var pathCands []string
	for i := len(cands) - 1; i >= 0; i-- {
		pathCands = append(pathCands, cands[i])
	}
	// hypotheses: skolemise their existential content, then instantiate their universal content
	var parsed []*sx
	var extra []string
	for _, p := range pc {
		if !strings.Contains(p, "(forall ") && !strings.Contains(p, "(exists ") {
			continue
		}
		t, err := parseSx(p)
		if err != nil {
			continue
		}
		if r, ch := in.hypSkolem(t, true); ch {
			extra = append(extra, r.String())
			parsed = append(parsed, r)
		} else {
			parsed = append(parsed, t)
		}
	}
	// index terms of the ground hypotheses and of the goal (positions a callee's postcondition or the
	// goal itself talks about, e.g. lc(n, cnt/2)) are candidates as well, after the path's own
	{
		var ground []string
		for _, p := range pc {
			if !strings.Contains(p, "(forall ") && !strings.Contains(p, "(exists ") && strings.Contains(p, "(soff ") {
				ground = append(ground, p)
			}
		}
		pathCands = append(pathCands, newIndexTerms(ground, pathCands, envInt("GOVC_GROUND_CANDS", 0), false)...)
		// index terms of the goal itself (cheap: a handful)
		pathCands = append(pathCands, newIndexTerms([]string{g}, pathCands, envInt("GOVC_GOAL_CANDS", 8), true)...)
	}
	in.order(pathCands)
	isInt := func(name string) bool {
		if strings.HasPrefix(name, "sk!") || strings.HasPrefix(name, "hs!") {
			return true // skolems of object binders are declared Int
		}
		return c.constSort(name) == "Int"
	}
	in.refCands = append(append([]string(nil), in.refPrime...), refTerms([]string{g}, envInt("GOVC_REF_CANDS", 10), isInt)...)
	for _, d := range in.newDecl {
		b.WriteString(d + "\n")
	}
	if lite {
		// weakened hypotheses: quantified parts replaced by true (their ground instances follow)
		for _, t := range parsed {
			b.WriteString("(assert " + dropQuant(t, true).String() + ")\n")
		}
	} else {
		for _, e := range extra {
			b.WriteString("(assert " + e + ")\n")
		}
	}
	// ground applications of abstract spec functions (triggers for the hypotheses that mention them)
	if strings.Contains(g, "abs!") || strings.Contains(strings.Join(pc, " "), "abs!") {
		in.curPrio = 0
		if t, err := parseSx(g); err == nil {
			in.noteAbsTerms(t)
		}
		in.curPrio = 1
		for k := len(pc) - 1; k >= 0; k-- {
			if p := pc[k]; strings.Contains(p, "abs!") {
				if t, err := parseSx(p); err == nil {
					in.noteAbsTerms(t)
				}
			}
		}
		for _, t := range parsed {
			in.noteAbsTerms(t)
		}
		in.curPrio = 2
	}
	if len(in.cands) > 0 || len(in.refCands) > 0 || len(in.absArgs) > 0 {
		// most recent hypotheses first: when the instance budget runs out it is the oldest facts
		// (usually the least relevant for the goal) that go without instances
		for k := len(parsed) - 1; k >= 0; k-- {
			in.collect(parsed[k], nil)
		}
		if len(in.absArgs) > 0 {
			// second round over the abstract-function terms the first round's instances introduced
			for r := 0; r < 2; r++ {
				n0 := len(in.out)
				for _, i := range in.trigOut {
					if strings.Contains(i, "abs!") {
						if t, err := parseSx(i); err == nil {
							in.noteAbsTerms(t)
						}
					}
				}
				in.limit += 400
				for k := len(parsed) - 1; k >= 0; k-- {
					in.collect(parsed[k], nil)
				}
				if len(in.out) == n0 {
					break
				}
			}
		}
		// second round: index terms that the first round's instances introduced (e.g. mid+j from a
		// callee's postcondition instantiated at j) become candidates for the one-binder hypotheses
		if extra := newIndexTerms(in.out, in.cands, envInt("GOVC_ROUND2", 0), false); len(extra) > 0 {
			in.cands = extra
			in.limit += 600
			in.max2 = 0
			for _, t := range parsed {
				in.collect(t, nil)
			}
		}
		for _, i := range in.out {
			b.WriteString("(assert " + i + ")\n")
		}
	}
	b.WriteString("(assert (not " + g + "))\n")
	if lite && strings.Contains(b.String()[bodyStart:], "(bytes.str ") {
		// characters of string(b[:n]) at the goal's skolem indices: instances of the axiom
		// sat(bytes.str(c,o,n), i) = c[o+i], whose pattern the syntactic matcher cannot see through
		// an interface or map round trip
		seen := map[string]bool{}
		var walk func(t *sx)
		var terms []*sx
		walk = func(t *sx) {
			if t.list == nil {
				return
			}
			if t.head() == "forall" || t.head() == "exists" {
				return
			}
			if t.head() == "bytes.str" && len(t.list) == 4 {
				k := t.String()
				if !seen[k] && !strings.Contains(k, "q!") && len(terms) < 6 {
					seen[k] = true
					terms = append(terms, t)
				}
			}
			for _, c := range t.list {
				walk(c)
			}
		}
		txt := b.String()[bodyStart:]
		for _, line := range strings.Split(txt, "\n") {
			if strings.Contains(line, "(bytes.str ") {
				if t, err := parseSx(line); err == nil {
					walk(t)
				}
			}
		}
		for _, t := range terms {
			for _, sk := range in.prime {
				c, o, n := t.list[1].String(), t.list[2].String(), t.list[3].String()
				b.WriteString("(assert (=> (and (<= 0 " + sk + ") (< " + sk + " " + n + ")) (= (sat " + t.String() + " " + sk + ") (select " + c + " (+ " + o + " " + sk + ")))))\n")
			}
		}
	}
	if len(patAxioms) > 0 {
		for _, inst := range ematch(patAxioms, b.String()[bodyStart:]) {
			b.WriteString("(assert " + inst + ")\n")
		}
	}
	b.WriteString("(check-sat)\n")
	return b.String()
}

// SortReg registers datatypes generated from Go struct types and the universal Val type.
type SortReg struct {
	structs   map[string]*structSort // sort name -> info
	order     []string
	valCtors  map[string]*valCtor // constructor name -> info
	valOrder  []string
	uninterp  map[string]bool
	uninterpO []string
}

type structSort struct {
	Name   string
	Ctor   string
	Fields []selField
	GoT    *types.Struct
	Named  types.Type
}

type valCtor struct {
	Name    string // constructor name
	Sel     string // selector name
	Sort    string // payload sort ("" for none)
	GoT     types.Type
	TypeKey string
}

func newSortReg() *SortReg {
	return &SortReg{structs: map[string]*structSort{}, valCtors: map[string]*valCtor{}, uninterp: map[string]bool{}}
}

func (sr *SortReg) render() string {
	var b strings.Builder
	for _, u := range sr.uninterpO {
		b.WriteString("(declare-sort " + u + " 0)\n")
	}
	// all struct datatypes and Val are declared together (they may be mutually recursive)
	var names []string
	names = append(names, "(Val 0)")
	for _, n := range sr.order {
		names = append(names, "("+n+" 0)")
	}
	var bodies []string
	// Val
	var vc []string
	vc = append(vc, "(VNil)")
	keys := append([]string{}, sr.valOrder...)
	sort.Strings(keys)
	for _, k := range keys {
		c := sr.valCtors[k]
		if c.Sort == "" {
			vc = append(vc, "("+c.Name+")")
		} else {
			vc = append(vc, fmt.Sprintf("(%s (%s %s))", c.Name, c.Sel, c.Sort))
		}
	}
	vc = append(vc, "(VOther (vother.tag Int) (vother.id Int))")
	bodies = append(bodies, "("+strings.Join(vc, " ")+")")
	for _, n := range sr.order {
		s := sr.structs[n]
		var fs []string
		for _, f := range s.Fields {
			fs = append(fs, fmt.Sprintf("(%s %s)", f.Name, f.Sort))
		}
		if len(fs) == 0 {
			bodies = append(bodies, fmt.Sprintf("((%s))", s.Ctor))
		} else {
			bodies = append(bodies, fmt.Sprintf("((%s %s))", s.Ctor, strings.Join(fs, " ")))
		}
	}
	b.WriteString("(declare-datatypes (" + strings.Join(names, " ") + ") (" + strings.Join(bodies, "\n ") + "))\n")
	// valref: the reference held by an interface value (0 when it holds no pointer)
	body := "(ite ((_ is VOther) v) (vother.id v) 0)"
	for _, k := range keys {
		c := sr.valCtors[k]
		if c.Sort != "Int" || c.GoT == nil {
			continue
		}
		switch c.GoT.Underlying().(type) {
		case *types.Pointer, *types.Map, *types.Chan, *types.Signature:
			body = "(ite ((_ is " + c.Name + ") v) (" + c.Sel + " v) " + body + ")"
		}
	}
	b.WriteString("(define-fun valref ((v Val)) Int " + body + ")\n")
	return b.String()
}
