package main

import (
	"fmt"
	"go/constant"
	"go/types"
	"os"
	"strings"
)

type specErr struct{ msg string }

func sfail(format string, args ...interface{}) {
	if os.Getenv("GOVC_DEBUG") != "" {
		panic(fmt.Sprintf(format, args...))
	}
	panic(specErr{fmt.Sprintf(format, args...)})
}

// SpecEnv evaluates contract expressions against a symbolic state.
type SpecEnv struct {
	e       *Env
	s       *State
	old     *State
	vars    map[string]Value
	pkg     string // short package name used for unqualified names
	depth   int
	qn      *int
	witness map[string]Value // existential variable -> witness value (proof-side instantiation)
	loopSt  *State           // state at entry of the innermost loop being specified (for atloop(e))
	// closure invariants are checked against an unknown number of earlier calls of the closure:
	// old(e) inside them denotes the value e had when the higher-order callee was entered, which
	// the closure body sees only as an unknown constant (one per syntactic old(...) occurrence)
	oldAbs map[*ECall]Value
	// names whose value is read from memory (captured variables, address-taken locals): their
	// value in the old state, used for occurrences inside old(...)
	oldVars map[string]Value
}

// shadow returns oldVars without the given (newly bound) names.
func (se *SpecEnv) shadow(names ...string) map[string]Value {
	if se.oldVars == nil {
		return nil
	}
	hit := false
	for _, n := range names {
		if _, ok := se.oldVars[n]; ok {
			hit = true
		}
	}
	if !hit {
		return se.oldVars
	}
	m := map[string]Value{}
	for k, v := range se.oldVars {
		m[k] = v
	}
	for _, n := range names {
		delete(m, n)
	}
	return m
}

func (se *SpecEnv) with(vars map[string]Value) *SpecEnv {
	n := *se
	n.vars = vars
	return &n
}

func (se *SpecEnv) inState(s *State) *SpecEnv {
	n := *se
	n.s = s
	return &n
}

func (se *SpecEnv) resolveType(t *TypeExpr) types.Type {
	switch t.Kind {
	case "ptr":
		return types.NewPointer(se.resolveType(t.Elem))
	case "slice":
		return types.NewSlice(se.resolveType(t.Elem))
	case "map":
		return types.NewMap(se.resolveType(t.Key), se.resolveType(t.Elem))
	case "iface":
		return types.NewInterfaceType(nil, nil)
	}
	if t.Pkg == "" {
		if o := types.Universe.Lookup(t.Name); o != nil {
			if tn, ok := o.(*types.TypeName); ok {
				return tn.Type()
			}
		}
		if t.Name == "seq" || t.Name == "mathint" {
			return types.Typ[types.Int]
		}
	}
	pk := t.Pkg
	if pk == "" {
		pk = se.pkg
	}
	tp := se.e.prog.typPkgs[pk]
	if tp == nil {
		sfail("unknown package %q in type %s", pk, t)
	}
	o := tp.Scope().Lookup(t.Name)
	if o == nil {
		sfail("unknown type %s", t)
	}
	tn, ok := o.(*types.TypeName)
	if !ok {
		sfail("%s is not a type", t)
	}
	return tn.Type()
}

func (se *SpecEnv) evalBool(x Expr) string {
	v := se.eval(x)
	if v.Sort != "Bool" {
		sfail("expected a boolean, got sort %s for %s", v.Sort, v.T)
	}
	return v.T
}

func constValue(e *Env, c *types.Const) Value {
	val := c.Val()
	switch val.Kind() {
	case constant.Int:
		return Value{T: bigLit(val.ExactString()), Sort: "Int", GoT: c.Type()}
	case constant.Bool:
		if constant.BoolVal(val) {
			return Value{T: "true", Sort: "Bool", GoT: c.Type()}
		}
		return Value{T: "false", Sort: "Bool", GoT: c.Type()}
	case constant.String:
		return Value{T: e.ctx.strLit(constant.StringVal(val)), Sort: "Str", GoT: c.Type()}
	}
	sfail("unsupported constant %s", c.Name())
	return Value{}
}

func (se *SpecEnv) lookupPkgObj(pk, name string) (Value, bool) {
	if lit, ok := se.e.prog.specCst[pk+"."+name]; ok {
		return Value{T: bigLit(lit), Sort: "Int", GoT: types.Typ[types.Int]}, true
	}
	tp := se.e.prog.typPkgs[pk]
	if tp == nil {
		return Value{}, false
	}
	o := tp.Scope().Lookup(name)
	switch o := o.(type) {
	case *types.Const:
		return constValue(se.e, o), true
	case *types.Var:
		return se.e.globalValue(se.s, pk, o), true
	}
	return Value{}, false
}

func (se *SpecEnv) eval(x Expr) Value {
	switch x := x.(type) {
	case *EInt:
		return Value{T: x.Val, Sort: "Int", GoT: types.Typ[types.Int]}
	case *EBool:
		if x.Val {
			return Value{T: "true", Sort: "Bool", GoT: types.Typ[types.Bool]}
		}
		return Value{T: "false", Sort: "Bool", GoT: types.Typ[types.Bool]}
	case *EStr:
		return Value{T: se.e.ctx.strLit(x.S), Sort: "Str", GoT: types.Typ[types.String]}
	case *ENil:
		return Value{T: "nil", Sort: "Nil"}
	case *EIdent:
		if v, ok := se.vars[x.Name]; ok {
			return v
		}
		if v, ok := se.lookupPkgObj(se.pkg, x.Name); ok {
			return v
		}
		if g, ok := se.e.prog.ghosts[x.Name]; ok && g.Key == nil {
			return se.ghostGet(g, "")
		}
		sfail("unknown identifier %q", x.Name)
	case *EUnary:
		if x.Op == "&" {
			pk, name := se.pkg, ""
			switch y := x.X.(type) {
			case *EIdent:
				name = y.Name
			case *EField:
				if id, ok := y.X.(*EIdent); ok {
					pk, name = id.Name, y.Name
				}
			}
			if tp := se.e.prog.typPkgs[pk]; tp != nil && name != "" {
				if gv, ok := tp.Scope().Lookup(name).(*types.Var); ok {
					ga := "GA!" + pk + "." + name
					if !se.e.ctx.declared[ga] {
						se.e.ctx.declConst(ga, "Int")
						se.e.ctx.axiom("(and (> " + ga + " 0) (<= " + ga + " alloc!0))")
					}
					return Value{T: ga, Sort: "Int", GoT: types.NewPointer(gv.Type())}
				}
			}
			// &p.f for a struct-valued field f of a struct pointer p: the embedded object (as ssa.FieldAddr)
			if y, ok := x.X.(*EField); ok {
				pv := se.eval(y.X)
				if pv.GoT != nil {
					if _, elemT, ok := isStructPtr(pv.GoT); ok {
						stt := elemT.Underlying().(*types.Struct)
						for i := 0; i < stt.NumFields(); i++ {
							f := stt.Field(i)
							if f.Name() == y.Name {
								if _, isStruct := f.Type().Underlying().(*types.Struct); isStruct {
									return Value{T: se.e.embRef(elemT, f.Name(), pv.T), Sort: "Int", GoT: types.NewPointer(f.Type())}
								}
							}
						}
					}
				}
			}
			sfail("& is only supported on package-level variables and struct-valued fields")
		}
		v := se.eval(x.X)
		switch x.Op {
		case "!":
			return Value{T: not(v.T), Sort: "Bool", GoT: types.Typ[types.Bool]}
		case "-":
			return Value{T: "(- " + v.T + ")", Sort: "Int", GoT: v.GoT}
		}
	case *EBinary:
		return se.evalBinary(x)
	case *ECond:
		c := se.evalBool(x.C)
		a := se.eval(x.A)
		b := se.eval(x.B)
		a, b = se.unifyNil(a, b)
		return Value{T: ite(c, a.T, b.T), Sort: a.Sort, GoT: a.GoT}
	case *EField:
		// package-qualified name?
		if id, ok := x.X.(*EIdent); ok {
			if _, isVar := se.vars[id.Name]; !isVar {
				if _, isPkg := se.e.prog.typPkgs[id.Name]; isPkg {
					if v, ok := se.lookupPkgObj(id.Name, x.Name); ok {
						return v
					}
					sfail("unknown name %s.%s", id.Name, x.Name)
				}
			}
		}
		v := se.eval(x.X)
		return se.fieldOf(v, x.Name)
	case *EIndex:
		v := se.eval(x.X)
		i := se.eval(x.I)
		if v.GoT == nil {
			sfail("cannot index untyped value %s", v.T)
		}
		switch u := v.GoT.Underlying().(type) {
		case *types.Slice:
			return se.e.sliceElem(se.s, v, i.T)
		case *types.Basic:
			if u.Info()&types.IsString != 0 {
				return Value{T: app("sat", v.T, i.T), Sort: "Int", GoT: types.Typ[types.Uint8]}
			}
		case *types.Map:
			return se.e.mapGet(se.s, v, i)
		}
		sfail("cannot index %s", typeName(v.GoT))
	case *ESlice:
		v := se.eval(x.X)
		lo := "0"
		if x.Lo != nil {
			lo = se.eval(x.Lo).T
		}
		switch v.GoT.Underlying().(type) {
		case *types.Slice:
			hi := sliceLen(v.T)
			if x.Hi != nil {
				hi = se.eval(x.Hi).T
			}
			return Value{T: mkSlice(sliceBase(v.T), add(sliceOff(v.T), lo), sub(hi, lo), sub(sliceCap(v.T), lo)), Sort: "Slice", GoT: v.GoT}
		case *types.Basic:
			hi := app("slen", v.T)
			if x.Hi != nil {
				hi = se.eval(x.Hi).T
			}
			return se.e.strSub(v.T, lo, hi)
		}
		sfail("cannot slice %s", typeName(v.GoT))
	case *ECall:
		return se.evalCall(x)
	case *EQuant:
		return se.evalQuant(x)
	case *ETypeAssert:
		v := se.eval(x.X)
		t := se.resolveType(x.T)
		if v.Sort != "Val" {
			sfail("type assertion on non-interface %s", v.T)
		}
		return se.e.valPayload(v, t)
	case *ELet:
		v := se.eval(x.Val)
		nv := map[string]Value{}
		for k, vv := range se.vars {
			nv[k] = vv
		}
		nv[x.Name] = v
		inner := se.with(nv)
		inner.oldVars = se.shadow(x.Name)
		return inner.eval(x.Body)
	case *ETypeLit:
		sfail("type literal outside typeof comparison")
	}
	sfail("cannot evaluate %T", x)
	return Value{}
}

// fieldOf selects a (possibly promoted) field of a struct pointer or struct value.
func (se *SpecEnv) fieldOf(v Value, name string) Value {
	if v.GoT == nil {
		sfail("field %s of untyped value %s", name, v.T)
	}
	// ghost per-object variable used as a field: x.ghostname
	if g, ok := se.e.prog.ghosts[name]; ok && g.Key != nil {
		if _, _, isF := types.LookupFieldOrMethod(v.GoT, true, nil, name); !isF {
			return se.ghostGet(g, v.T)
		}
	}
	var pkg *types.Package
	if n := recvNamed(v.GoT); n != nil {
		pkg = n.Obj().Pkg()
	}
	obj, path, _ := types.LookupFieldOrMethod(v.GoT, true, pkg, name)
	fv, ok := obj.(*types.Var)
	if !ok || !fv.IsField() {
		sfail("type %s has no field %s", typeName(v.GoT), name)
	}
	cur := v
	for _, idx := range path {
		cur = se.e.selectField(se.s, cur, idx)
	}
	return cur
}

// selectField selects field idx from a struct pointer (heap load) or struct value.
func (e *Env) selectField(s *State, v Value, idx int) Value {
	if st, elemT, ok := isStructPtr(v.GoT); ok {
		_ = st
		return e.loadField(s, elemT, v.T, idx)
	}
	if _, ok := v.GoT.Underlying().(*types.Struct); ok {
		return e.structField(v, idx)
	}
	sfail("cannot select field of %s", typeName(v.GoT))
	return Value{}
}

func (se *SpecEnv) unifyNil(a, b Value) (Value, Value) {
	if a.Sort == "Nil" && b.Sort != "Nil" {
		a = nilOf(b)
	} else if b.Sort == "Nil" && a.Sort != "Nil" {
		b = nilOf(a)
	}
	return a, b
}

func nilOf(like Value) Value {
	switch like.Sort {
	case "Int":
		return Value{T: "0", Sort: "Int", GoT: like.GoT}
	case "Val":
		return Value{T: "VNil", Sort: "Val", GoT: like.GoT}
	case "Slice":
		return Value{T: "nil-slice", Sort: "NilSlice", GoT: like.GoT}
	}
	sfail("nil compared with sort %s", like.Sort)
	return Value{}
}

func (se *SpecEnv) evalBinary(x *EBinary) Value {
	boolV := func(t string) Value { return Value{T: t, Sort: "Bool", GoT: types.Typ[types.Bool]} }
	switch x.Op {
	case "&&":
		return boolV(and(se.evalBool(x.L), se.evalBool(x.R)))
	case "||":
		return boolV(or(se.evalBool(x.L), se.evalBool(x.R)))
	case "==>":
		return boolV(implies(se.evalBool(x.L), se.evalBool(x.R)))
	case "<==>":
		return boolV(eq(se.evalBool(x.L), se.evalBool(x.R)))
	}
	// typeof comparisons
	if x.Op == "==" || x.Op == "!=" {
		if c, ok := x.L.(*ECall); ok {
			if id, ok := c.Fn.(*EIdent); ok && id.Name == "typeof" {
				tl, ok := x.R.(*ETypeLit)
				var t types.Type
				if ok {
					t = se.resolveType(tl.T)
				} else if rid, ok := x.R.(*EIdent); ok {
					t = se.resolveType(&TypeExpr{Kind: "name", Name: rid.Name})
				} else if rf, ok := x.R.(*EField); ok {
					if pk, ok := rf.X.(*EIdent); ok {
						t = se.resolveType(&TypeExpr{Kind: "name", Pkg: pk.Name, Name: rf.Name})
					}
				}
				if t == nil {
					sfail("typeof must be compared with a type")
				}
				v := se.eval(c.Args[0])
				r := se.e.valIsType(v, t)
				if x.Op == "!=" {
					r = not(r)
				}
				return boolV(r)
			}
		}
	}
	a := se.eval(x.L)
	b := se.eval(x.R)
	a, b = se.unifyNil(a, b)
	switch x.Op {
	case "==", "!=":
		var r string
		switch {
		case a.Sort == "NilSlice":
			r = eq(sliceBase(b.T), "0")
		case b.Sort == "NilSlice":
			r = eq(sliceBase(a.T), "0")
		case a.Sort == "Nil" && b.Sort == "Nil":
			r = "true"
		default:
			if a.Sort == "Val" && b.Sort != "Val" {
				b = se.e.makeIface(b)
			} else if b.Sort == "Val" && a.Sort != "Val" {
				a = se.e.makeIface(a)
			}
			if a.Sort != b.Sort {
				sfail("comparing sorts %s and %s (%s vs %s)", a.Sort, b.Sort, a.T, b.T)
			}
			r = eq(a.T, b.T)
		}
		if x.Op == "!=" {
			r = not(r)
		}
		return boolV(r)
	case "<", "<=", ">", ">=":
		if a.Sort == "Str" && b.Sort == "Str" {
			return boolV("(" + x.Op + " (scmp " + a.T + " " + b.T + ") 0)")
		}
		if a.Sort != "Int" || b.Sort != "Int" {
			sfail("ordering on sorts %s, %s", a.Sort, b.Sort)
		}
		return boolV("(" + x.Op + " " + a.T + " " + b.T + ")")
	case "+", "-", "*":
		if a.Sort == "Str" && x.Op == "+" {
			return Value{T: app("sconcat", a.T, b.T), Sort: "Str", GoT: a.GoT}
		}
		if a.Sort != "Int" || b.Sort != "Int" {
			sfail("arithmetic on sorts %s, %s", a.Sort, b.Sort)
		}
		// spec arithmetic is mathematical (unbounded)
		return Value{T: "(" + x.Op + " " + a.T + " " + b.T + ")", Sort: "Int", GoT: types.Typ[types.Int]}
	case "/":
		return Value{T: app("tdiv", a.T, b.T), Sort: "Int", GoT: types.Typ[types.Int]}
	case "%":
		return Value{T: app("tmod", a.T, b.T), Sort: "Int", GoT: types.Typ[types.Int]}
	}
	sfail("unknown operator %s", x.Op)
	return Value{}
}

func (se *SpecEnv) evalQuant(x *EQuant) Value {
	nv := map[string]Value{}
	for k, v := range se.vars {
		nv[k] = v
	}
	if !x.Forall && len(se.witness) > 0 {
		// existential with witnesses for all its variables: instantiate (exists-introduction)
		all := true
		for _, qv := range x.Vars {
			if _, ok := se.witness[qv.Name]; !ok {
				all = false
			}
		}
		if all {
			for _, qv := range x.Vars {
				nv[qv.Name] = se.witness[qv.Name]
			}
			return Value{T: se.with(nv).evalBool(x.Body), Sort: "Bool", GoT: types.Typ[types.Bool]}
		}
	}
	var binders []string
	var guards []string
	for _, qv := range x.Vars {
		*se.qn++
		t := se.resolveType(qv.T)
		srt := se.e.sr.sortOf(t)
		name := fmt.Sprintf("q!%s!%d", qv.Name, *se.qn)
		switch t.Underlying().(type) {
		case *types.Pointer, *types.Map:
			// object-valued binder: instantiated at object references, not at index terms
			name = fmt.Sprintf("q!ref.%s!%d", qv.Name, *se.qn)
		}
		binders = append(binders, "("+name+" "+srt+")")
		v := Value{T: name, Sort: srt, GoT: t}
		nv[qv.Name] = v
		// quantified machine integers other than int range over their type
		if b, ok := t.Underlying().(*types.Basic); ok && b.Info()&types.IsInteger != 0 && b.Kind() != types.Int {
			guards = append(guards, rangeFact(name, t))
		}
	}
	qi := se.with(nv)
	qi.oldVars = se.shadow(qnames(x)...)
	body := qi.evalBool(x.Body)
	g := and(guards...)
	q := "forall"
	if x.Forall {
		body = implies(g, body)
	} else {
		q = "exists"
		body = and(g, body)
	}
	return Value{T: "(" + q + " (" + strings.Join(binders, " ") + ") " + body + ")", Sort: "Bool", GoT: types.Typ[types.Bool]}
}

func qnames(x *EQuant) []string {
	var out []string
	for _, qv := range x.Vars {
		out = append(out, qv.Name)
	}
	return out
}

func (se *SpecEnv) evalCall(x *ECall) Value {
	boolV := func(t string) Value { return Value{T: t, Sort: "Bool", GoT: types.Typ[types.Bool]} }
	intV := func(t string) Value { return Value{T: t, Sort: "Int", GoT: types.Typ[types.Int]} }
	id, isId := x.Fn.(*EIdent)
	if !isId {
		// pkg.specfunc(...) or conversion pkg.Type(x)
		if f, ok := x.Fn.(*EField); ok {
			if pk, ok := f.X.(*EIdent); ok {
				if sf, ok := se.e.prog.specFn[pk.Name+"."+f.Name]; ok {
					return se.callSpec(sf, x.Args)
				}
				if tp := se.e.prog.typPkgs[pk.Name]; tp != nil {
					if tn, ok := tp.Scope().Lookup(f.Name).(*types.TypeName); ok {
						return se.convert(se.eval(x.Args[0]), tn.Type())
					}
				}
			}
		}
		if tl, ok := x.Fn.(*ETypeLit); ok {
			return se.convert(se.eval(x.Args[0]), se.resolveType(tl.T))
		}
		sfail("unsupported call expression")
	}
	switch id.Name {
	case "old":
		if se.old == nil && se.oldAbs != nil {
			if c, ok := se.oldAbs[x]; ok {
				return c
			}
			cur := se.eval(x.Args[0])
			c := cur
			c.Addr = nil
			c.T = se.e.ctx.freshConst("inv.old", cur.Sort)
			se.oldAbs[x] = c
			return c
		}
		if se.old == nil {
			sfail("old() not available here")
		}
		inOld := se.inState(se.old)
		if len(se.oldVars) > 0 {
			nv := map[string]Value{}
			for k, val := range se.vars {
				nv[k] = val
			}
			for k, val := range se.oldVars {
				nv[k] = val
			}
			inOld.vars = nv
			inOld.oldVars = nil
		}
		return inOld.eval(x.Args[0])
	case "atloop":
		if se.loopSt == nil {
			sfail("atloop() is only available in loop invariants")
		}
		return se.inState(se.loopSt).eval(x.Args[0])
	case "len":
		v := se.eval(x.Args[0])
		switch v.Sort {
		case "Slice":
			return intV(sliceLen(v.T))
		case "Str":
			return intV(app("slen", v.T))
		case "Int":
			if _, ok := v.GoT.Underlying().(*types.Map); ok {
				return intV(se.e.mapLen(se.s, v))
			}
		}
		sfail("len of sort %s", v.Sort)
	case "cap":
		v := se.eval(x.Args[0])
		return intV(sliceCap(v.T))
	case "fresh":
		v := se.eval(x.Args[0])
		if se.old == nil {
			sfail("fresh() needs an old state")
		}
		t := v.T
		if v.Sort == "Slice" {
			t = sliceBase(v.T)
		}
		return boolV(and("(> "+t+" "+se.old.alloc+")", "(<= "+t+" "+se.s.alloc+")"))
	case "allocated":
		v := se.eval(x.Args[0])
		t := v.T
		if v.Sort == "Slice" {
			t = sliceBase(v.T)
		}
		return boolV(and("(> "+t+" 0)", "(<= "+t+" "+se.s.alloc+")"))
	case "base":
		v := se.eval(x.Args[0])
		return intV(sliceBase(v.T))
	case "has":
		// has(m, k): map membership
		m := se.eval(x.Args[0])
		k := se.eval(x.Args[1])
		return boolV(se.e.mapHas(se.s, m, k))
	case "nonNilPtr":
		v := se.eval(x.Args[0])
		if v.Sort != "Val" {
			sfail("nonNilPtr expects an interface value")
		}
		return boolV(and(not(eq(v.T, "VNil")), not(eq(app("valref", v.T), "0"))))
	case "errIs":
		a := se.eval(x.Args[0])
		b := se.eval(x.Args[1])
		return boolV(errIs(se.e, a.T, b.T))
	case "typeof":
		sfail("typeof must be compared with a type")
	case "strAtoi":
		se.e.ctx.declFun("atoi", []string{"Str"}, "Int")
		return Value{T: app("atoi", se.eval(x.Args[0]).T), Sort: "Int", GoT: types.Typ[types.Int]}
	case "strAtoiOK":
		se.e.ctx.declFun("atoi.ok", []string{"Str"}, "Bool")
		return Value{T: app("atoi.ok", se.eval(x.Args[0]).T), Sort: "Bool", GoT: types.Typ[types.Bool]}
	case "pathJoin3":
		se.e.ctx.declFun("path.join3", []string{"Str", "Str", "Str"}, "Str")
		return Value{T: app("path.join3", se.eval(x.Args[0]).T, se.eval(x.Args[1]).T, se.eval(x.Args[2]).T), Sort: "Str", GoT: types.Typ[types.String]}
	case "rangevisited":
		// rangevisited(k): the map range of this function has already produced key k
		if se.e.rangeMap == "" {
			sfail("rangevisited: the function has no range over a map (or the clause is evaluated before the range starts)")
		}
		if se.e.rangeMap == "?" {
			sfail("rangevisited: the function has several ranges over maps")
		}
		k := se.eval(x.Args[0])
		if se.e.rangeKeySort == "Val" && k.Sort != "Val" {
			k = se.e.makeIface(k)
		}
		rv := se.e.heapGet(se.s, se.e.rangeMap, arr(se.e.rangeKeySort, "Bool"))
		return boolV(sel2(rv, k.T))
	case "strUpper":
		// the value strings.ToUpper(s) as the executor models it (calls.go)
		return Value{T: app("supper", se.eval(x.Args[0]).T), Sort: "Str", GoT: types.Typ[types.String]}
	case "strLower":
		se.e.ctx.declFun("str.lower", []string{"Str"}, "Str")
		return Value{T: app("str.lower", se.eval(x.Args[0]).T), Sort: "Str", GoT: types.Typ[types.String]}
	case "runesStr":
		// runesStr(s, lo, hi): the Go value string(s[lo:hi]) for a []rune s, as the executor models it
		sl := se.eval(x.Args[0])
		lo := se.eval(x.Args[1])
		hi := se.eval(x.Args[2])
		if sl.Sort != "Slice" {
			sfail("runesStr expects a slice")
		}
		se.e.ctx.declFun("runes.str", []string{arr("Int", "Int"), "Int", "Int"}, "Str")
		name := elemMapNameT(types.Typ[types.Int32])
		se.e.noteMapType(name, types.Typ[types.Int32], "elem")
		m := se.e.heapGet(se.s, name, arr("Int", arr("Int", "Int")))
		return Value{T: app("runes.str", sel2(m, sliceBase(sl.T)), add(sliceOff(sl.T), lo.T), sub(hi.T, lo.T)), Sort: "Str", GoT: types.Typ[types.String]}
	case "roundAvg":
		// roundAvg(s, n): the Go value int64(math.Round(float64(s) / float64(n))) as the executor models it
		// (float64 arithmetic as exact real arithmetic, round half away from zero)
		sv := se.eval(x.Args[0])
		nv := se.eval(x.Args[1])
		q := "(/ (to_real " + sv.T + ") (to_real " + nv.T + "))"
		r := ite("(>= "+q+" 0.0)", "(to_real (to_int (+ "+q+" 0.5)))", "(- (to_real (to_int (+ (- "+q+") 0.5))))")
		tr := ite("(>= "+r+" 0.0)", "(to_int "+r+")", "(- (to_int (- "+r+")))")
		return Value{T: wrapInt(tr, types.Typ[types.Int64]), Sort: "Int", GoT: types.Typ[types.Int64]}
	case "strTrim":
		se.e.ctx.declFun("strim", []string{"Str"}, "Str")
		return Value{T: app("strim", se.eval(x.Args[0]).T), Sort: "Str", GoT: types.Typ[types.String]}
	case "isnil":
		v := se.eval(x.Args[0])
		return boolV(eq(v.T, nilOf(v).T))
	}
	if sf, ok := se.e.prog.specFn[se.pkg+"."+id.Name]; ok {
		return se.callSpec(sf, x.Args)
	}
	objOf := func(a Value) string {
		if a.Sort == "Val" {
			return app("valref", a.T) // a ghost of an interface value belongs to the object behind it
		}
		return a.T
	}
	if g, ok := se.e.prog.ghosts[id.Name]; ok && g.Key != nil && len(x.Args) == 1 && g.Key2 == nil {
		return se.ghostGet(g, objOf(se.eval(x.Args[0])))
	}
	if g, ok := se.e.prog.ghosts[id.Name]; ok && g.Key2 != nil && len(x.Args) == 2 {
		return se.ghostGet2(g, objOf(se.eval(x.Args[0])), se.eval(x.Args[1]).T)
	}
	// conversion to a basic or package type
	if o := types.Universe.Lookup(id.Name); o != nil {
		if tn, ok := o.(*types.TypeName); ok && len(x.Args) == 1 {
			return se.convert(se.eval(x.Args[0]), tn.Type())
		}
	}
	if tp := se.e.prog.typPkgs[se.pkg]; tp != nil {
		if tn, ok := tp.Scope().Lookup(id.Name).(*types.TypeName); ok && len(x.Args) == 1 {
			return se.convert(se.eval(x.Args[0]), tn.Type())
		}
	}
	// spec functions of other packages visible unqualified (storage specs used from engine, ...)
	for k, sf := range se.e.prog.specFn {
		if strings.HasSuffix(k, "."+id.Name) {
			return se.callSpec(sf, x.Args)
		}
	}
	sfail("unknown function %q in contract", id.Name)
	return Value{}
}

func (se *SpecEnv) convert(v Value, t types.Type) Value {
	if v.Sort == "Int" {
		if b, ok := t.Underlying().(*types.Basic); ok && b.Info()&types.IsInteger != 0 {
			return Value{T: wrapInt(v.T, t), Sort: "Int", GoT: t}
		}
	}
	if v.Sort == se.e.sr.sortOf(t) {
		return Value{T: v.T, Sort: v.Sort, GoT: t}
	}
	if _, ok := t.Underlying().(*types.Interface); ok && v.Sort != "Val" {
		return se.e.makeIface(v)
	}
	sfail("unsupported conversion of sort %s to %s", v.Sort, typeName(t))
	return Value{}
}

func (se *SpecEnv) callSpec(sf *SpecFunc, args []Expr) Value {
	if len(args) != len(sf.Params) {
		sfail("spec function %s expects %d arguments", sf.Name, len(sf.Params))
	}
	if se.depth > 40 {
		sfail("spec function recursion too deep in %s", sf.Name)
	}
	nv := map[string]Value{}
	inner := *se
	inner.pkg = sf.Pkg
	for i, p := range sf.Params {
		v := se.eval(args[i])
		if v.Sort == "Nil" {
			t := inner.resolveType(p.T)
			v = nilOf(Value{Sort: se.e.sr.sortOf(t), GoT: t})
		}
		if v.GoT == nil || p.T.Kind != "name" || p.T.Name != "any" {
			// give the argument the declared parameter type where it is more specific
			pt := inner.resolveType(p.T)
			if se.e.sr.sortOf(pt) == v.Sort {
				if _, isIface := pt.Underlying().(*types.Interface); !isIface || v.GoT == nil {
					v.GoT = pt
				}
			} else if v.Sort != "Val" && se.e.sr.sortOf(pt) == "Val" {
				v = se.e.makeIface(v)
			} else {
				sfail("spec function %s: argument %d has sort %s, want %s", sf.Name, i, v.Sort, se.e.sr.sortOf(pt))
			}
		}
		nv[p.Name] = v
	}
	inner.vars = nv
	inner.oldVars = nil
	inner.depth = se.depth + 1
	if sf.Abstract {
		var argT, argS []string
		for _, p := range sf.Params {
			argT = append(argT, nv[p.Name].T)
			argS = append(argS, nv[p.Name].Sort)
		}
		ret := "Bool"
		var rt types.Type = types.Typ[types.Bool]
		if sf.Ret != nil {
			rt = inner.resolveType(sf.Ret)
			ret = se.e.sr.sortOf(rt)
		}
		fname := "abs!" + sf.Pkg + "." + sf.Name
		se.e.ctx.declFun(fname, argS, ret)
		return Value{T: app(fname, argT...), Sort: ret, GoT: rt}
	}
	if sf.Opaque && !se.e.revealed[sf.Name] && se.e.rec == nil {
		// opaque predicate: an uninterpreted function of its arguments and of the current
		// versions of the heap maps its definition reads (its footprint)
		var foot []string
		se.e.rec = &foot
		func() {
			defer func() { se.e.rec = nil }()
			inner.eval(sf.Body)
		}()
		seen := map[string]bool{}
		var names []string
		for _, n := range foot {
			if !seen[n] {
				seen[n] = true
				names = append(names, n)
			}
		}
		sortStrings(names)
		var argT, argS []string
		for _, p := range sf.Params {
			argT = append(argT, nv[p.Name].T)
			argS = append(argS, nv[p.Name].Sort)
		}
		fname := "opq!" + sf.Pkg + "." + sf.Name
		for _, n := range names {
			argT = append(argT, se.e.heapGet(se.s, n, se.s.hsort[n]))
			argS = append(argS, se.s.hsort[n])
			fname += ""
		}
		fname += fmt.Sprintf("!%d", len(names))
		se.e.ctx.declFun(fname, argS, "Bool")
		return Value{T: app(fname, argT...), Sort: "Bool", GoT: types.Typ[types.Bool]}
	}
	r := inner.eval(sf.Body)
	if sf.Ret != nil {
		rt := inner.resolveType(sf.Ret)
		if se.e.sr.sortOf(rt) == r.Sort {
			r.GoT = rt
		}
	}
	return r
}

// ghostGet2 reads a two-dimensional ghost variable.
func (se *SpecEnv) ghostGet2(g *GhostVar, k1, k2 string) Value {
	inner := *se
	inner.pkg = g.Pkg
	t := inner.resolveType(g.T)
	srt := se.e.sr.sortOf(t)
	if !streamGhost(g.Name) {
		se.e.noteMapType("G!"+g.Name, t, "elem")
	}
	m := se.e.heapGet(se.s, "G!"+g.Name, arr("Int", arr("Int", srt)))
	if streamGhost(g.Name) {
		return Value{T: sel2(se.e.ctx.resolveSel(m, k1), k2), Sort: srt, GoT: t}
	}
	return Value{T: sel2(sel2(m, k1), k2), Sort: srt, GoT: t}
}

// ghostGet reads a ghost variable (global, or per-object when obj != "").
func (se *SpecEnv) ghostGet(g *GhostVar, obj string) Value {
	inner := *se
	inner.pkg = g.Pkg
	t := inner.resolveType(g.T)
	srt := se.e.sr.sortOf(t)
	if g.Key == nil {
		m := se.e.heapGet(se.s, "G!"+g.Name, srt)
		return Value{T: m, Sort: srt, GoT: t}
	}
	se.e.noteMapType("G!"+g.Name, t, "field")
	m := se.e.heapGet(se.s, "G!"+g.Name, arr("Int", srt))
	if streamGhost(g.Name) {
		return Value{T: se.e.ctx.resolveSel(m, obj), Sort: srt, GoT: t}
	}
	return Value{T: sel2(m, obj), Sort: srt, GoT: t}
}

// streamGhost: ghost variables of the byte-stream / file model (read through the recorded store chain).
func streamGhost(name string) bool {
	switch name {
	case "bufr", "bufw", "bufdata", "fdata", "fsize", "fpos", "rdata", "rpos", "rend":
		return true
	}
	return false
}
