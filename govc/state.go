package main

import (
	"fmt"
	"go/types"
	"sort"
	"strings"

	"golang.org/x/tools/go/ssa"
)

// State is the symbolic state on one path.
type State struct {
	heap   map[string]string // heap map name -> current SMT term (usually a declared constant)
	hsort  map[string]string // heap map name -> sort
	alloc  string            // allocation counter term
	pc     []string          // path condition
	regs   map[ssa.Value]Value
	defers []*ssa.Defer
	// loop bookkeeping: measure recorded at the head on entry (per head block index)
	measure       map[int]string
	inLoop        map[int]bool
	trace         []string // human readable path description (block indices)
	depth         int
	epoch         string // non-empty after a havoc-everything: maps first read later get epoch constants
	unknownWrites bool
	// frame checkpoints: after a call of a callback parameter (whose effects are accounted for at
	// the call site of the higher-order function) own writes are measured against these versions
	frameBase map[string]string
	cands     []string        // candidate integer terms for ground instantiation of hypotheses
	epochKeep map[string]bool // heap maps exempt from every havoc-everything so far (callback preserves)
	lens      []string        // lengths of append prefixes seen on the path (offsets for instantiation candidates)
	loopEntry map[int]*State  // heap view at the entry of each loop (by ordinal)
}

func (s *State) addLen(t string) {
	if t == "" || len(t) > 200 || t == "0" {
		return
	}
	for _, c := range s.lens {
		if c == t {
			return
		}
	}
	if len(s.lens) < 6 {
		s.lens = append(s.lens, t)
	}
}

func (s *State) addCand(t string) {
	if t == "" || len(t) > 200 {
		return
	}
	for _, c := range s.cands {
		if c == t {
			return
		}
	}
	s.cands = append(s.cands, t)
	if len(s.cands) > 32 {
		s.cands = s.cands[len(s.cands)-32:] // keep the most recent index terms
	}
}

func (s *State) clone() *State {
	n := &State{
		heap:          make(map[string]string, len(s.heap)),
		hsort:         s.hsort, // shared (monotone)
		alloc:         s.alloc,
		pc:            append([]string(nil), s.pc...),
		regs:          make(map[ssa.Value]Value, len(s.regs)),
		defers:        append([]*ssa.Defer(nil), s.defers...),
		measure:       map[int]string{},
		inLoop:        map[int]bool{},
		trace:         append([]string(nil), s.trace...),
		depth:         s.depth,
		epoch:         s.epoch,
		unknownWrites: s.unknownWrites,
		cands:         append([]string(nil), s.cands...),
		loopEntry:     map[int]*State{},
		lens:          append([]string(nil), s.lens...),
		epochKeep:     s.epochKeep,
	}
	if s.frameBase != nil {
		n.frameBase = make(map[string]string, len(s.frameBase))
		for k, v := range s.frameBase {
			n.frameBase[k] = v
		}
	}
	for k, v := range s.loopEntry {
		n.loopEntry[k] = v
	}
	for k, v := range s.heap {
		n.heap[k] = v
	}
	for k, v := range s.regs {
		n.regs[k] = v
	}
	for k, v := range s.measure {
		n.measure[k] = v
	}
	for k, v := range s.inLoop {
		n.inLoop[k] = v
	}
	return n
}

// snapshot copies only the heap/alloc view (for old()).
func (s *State) snapshot() *State {
	n := &State{heap: make(map[string]string, len(s.heap)), hsort: s.hsort, alloc: s.alloc, epoch: s.epoch, epochKeep: s.epochKeep}
	for k, v := range s.heap {
		n.heap[k] = v
	}
	return n
}

func (s *State) assume(f string) {
	if f != "true" && f != "" {
		s.pc = append(s.pc, f)
	}
}

// Env is the verification environment shared by the symbolic executor and the spec evaluator.
type Env struct {
	ctx  *Ctx
	sr   *SortReg
	prog *Program
	pkg  *types.Package // package of the function being verified (for name resolution)
	// initial heap: every map read before being written gets a declared initial constant; the
	// same initial constant is used on all paths.
	init map[string]string
	// mapTypes records, per heap map, the Go type of its values and its shape ("field", "elem",
	// "cell"), so that every unconstrained version of the map can be given its type invariant.
	mapTypes     map[string]mapType
	ownedMaps    map[string]bool // heap map names of owned slice fields
	rec          *[]string       // when non-nil: names of heap maps read (footprint recording)
	revealed     map[string]bool // opaque spec predicates revealed in the function being verified
	rangeKeySort string          // key sort of the map range of the function being verified (spec: rangevisited)
	rangeMap     string          // heap name of that range's ghost set; "?" when the function has several map ranges
}

type mapType struct {
	T     types.Type
	Shape string
}

func (e *Env) noteMapType(name string, t types.Type, shape string) {
	if e.mapTypes == nil {
		e.mapTypes = map[string]mapType{}
	}
	if _, ok := e.mapTypes[name]; !ok {
		e.mapTypes[name] = mapType{t, shape}
	}
}

// ownedAxiom: for slice fields declared "owned", distinct objects never share a backing array. The
// discipline that maintains it is checked syntactically at every store to such a field.
func (e *Env) ownedAxiom(name, c string) {
	if !e.ownedMaps[name] {
		return
	}
	fn := "own!" + c
	e.ctx.declFun(fn, []string{"Int"}, "Int")
	e.ctx.axiom("(forall ((r! Int)) (! (=> (not (= (sbase (select " + c + " r!)) 0)) (= (" + fn + " (sbase (select " + c + " r!))) r!)) :pattern ((select " + c + " r!))))")
}

// typedMapAxiom states the type invariant of an unconstrained heap map version: every stored
// value is a well-formed value of its Go type (machine integer range, slice header shape,
// non-negative references).
func (e *Env) typedMapAxiom(name, c string) {
	mt, ok := e.mapTypes[name]
	if !ok {
		return
	}
	var read, binders string
	if mt.Shape == "elem" {
		read = "(select (select " + c + " r!) i!)"
		binders = "((r! Int) (i! Int))"
	} else {
		read = "(select " + c + " r!)"
		binders = "((r! Int))"
	}
	f := e.typeFacts(nil, Value{T: read, Sort: e.sr.sortOf(mt.T), GoT: mt.T})
	if f != "true" {
		e.ctx.axiom("(forall " + binders + " (! " + f + " :pattern (" + read + ")))")
	}
	if strings.HasSuffix(c, "!0") {
		// initial heap: every reference stored in an object that existed at entry was allocated
		// before entry (locations of objects allocated later are unconstrained)
		g := e.typeFacts(&State{alloc: "alloc!0"}, Value{T: read, Sort: e.sr.sortOf(mt.T), GoT: mt.T})
		if g != f && g != "true" {
			e.ctx.axiom("(forall " + binders + " (! (=> (<= r! alloc!0) " + g + ") :pattern (" + read + ")))")
		}
	}
}

// heapGet returns the current term of a heap map, creating its initial constant on demand.
func (e *Env) heapGet(s *State, name, sort string) string {
	if e.rec != nil {
		*e.rec = append(*e.rec, name)
	}
	if t, ok := s.heap[name]; ok {
		return t
	}
	if s.epoch != "" && !s.epochKeep[name] {
		c := e.ctx.declConst(mangle(name)+"!e"+s.epoch, sort)
		e.typedMapAxiom(name, c)
		e.ownedAxiom(name, c)
		s.heap[name] = c
		s.hsort[name] = sort
		if s.frameBase != nil {
			s.frameBase[name] = c
		}
		return c
	}
	if t, ok := e.init[name]; ok {
		// declared for another path/state already: initial value (only valid if this state has
		// never written it, which is the case since it is absent from s.heap)
		s.heap[name] = t
		s.hsort[name] = sort
		return t
	}
	c := e.ctx.declConst(mangle(name)+"!0", sort)
	e.typedMapAxiom(name, c)
	e.ownedAxiom(name, c)
	e.init[name] = c
	s.heap[name] = c
	s.hsort[name] = sort
	return c
}

// heapSet installs a new term for a heap map, naming it with a fresh constant to keep terms small.
func (e *Env) heapSet(s *State, name, sort, term string) {
	e.heapGet(s, name, sort) // make sure the initial constant exists (frames compare against it)
	c := e.ctx.freshConst(name, sort)
	s.assume(eq(c, term))
	if strings.HasPrefix(name, "G!buf") || name == "G!fdata" || name == "G!fsize" || name == "G!fpos" || name == "G!rdata" || name == "G!rpos" || name == "G!rend" || name == "E!uint8" {
		if e.ctx.defs == nil {
			e.ctx.defs = map[string]string{}
		}
		e.ctx.defs[c] = term
	}
	e.ownedAxiom(name, c)
	s.heap[name] = c
	s.hsort[name] = sort
}

// heapHavoc replaces a heap map by a fresh unconstrained constant.
func (e *Env) heapHavoc(s *State, name, sort string) string {
	e.heapGet(s, name, sort)
	c := e.ctx.freshConst(name, sort)
	e.typedMapAxiom(name, c)
	e.ownedAxiom(name, c)
	s.heap[name] = c
	s.hsort[name] = sort
	return c
}

func arr(k, v string) string { return "(Array " + k + " " + v + ")" }

// ---- struct fields ----

// fieldInfo resolves field f of struct type t (named or not).
func fieldByName(t types.Type, name string) (int, *types.Var) {
	st, ok := t.Underlying().(*types.Struct)
	if !ok {
		return -1, nil
	}
	for i := 0; i < st.NumFields(); i++ {
		if st.Field(i).Name() == name {
			return i, st.Field(i)
		}
	}
	return -1, nil
}

// embRef is the reference of a struct-typed field embedded in a heap object.
func (e *Env) embRef(structT types.Type, field string, obj string) string {
	fn := "emb!" + mangle(typeName(structT)) + "!" + field
	inv := fn + "!inv"
	e.ctx.declFun(fn, []string{"Int"}, "Int")
	e.ctx.declFun(inv, []string{"Int"}, "Int")
	if strings.Contains(obj, "q!") || strings.Contains(obj, "fr!r") || strings.Contains(obj, "r!") {
		e.ctx.axiom("(forall ((x Int)) (! (and (= (" + inv + " (" + fn + " x)) x) (< (" + fn + " x) 0)) :pattern ((" + fn + " x))))")
	} else {
		e.ctx.axiom("(and (= (" + inv + " (" + fn + " " + obj + ")) " + obj + ") (< (" + fn + " " + obj + ") 0))")
	}
	return app(fn, obj)
}

// loadField reads field idx of the struct object obj (a Ref) of struct type structT.
func (e *Env) loadField(s *State, structT types.Type, obj string, idx int) Value {
	st := structT.Underlying().(*types.Struct)
	f := st.Field(idx)
	if _, isStruct := f.Type().Underlying().(*types.Struct); isStruct {
		// embedded struct value: assemble from the flattened fields of the interior object
		return e.loadStruct(s, f.Type(), e.embRef(structT, f.Name(), obj))
	}
	srt := e.sr.sortOf(f.Type())
	e.noteMapType(fieldMapName(structT, f.Name()), f.Type(), "field")
	m := e.heapGet(s, fieldMapName(structT, f.Name()), arr("Int", srt))
	return Value{T: sel2(m, obj), Sort: srt, GoT: f.Type()}
}

func (e *Env) storeField(s *State, structT types.Type, obj string, idx int, v Value) {
	st := structT.Underlying().(*types.Struct)
	f := st.Field(idx)
	if _, isStruct := f.Type().Underlying().(*types.Struct); isStruct {
		e.storeStruct(s, f.Type(), e.embRef(structT, f.Name(), obj), v)
		return
	}
	srt := e.sr.sortOf(f.Type())
	name := fieldMapName(structT, f.Name())
	e.noteMapType(name, f.Type(), "field")
	m := e.heapGet(s, name, arr("Int", srt))
	e.heapSet(s, name, arr("Int", srt), sto(m, obj, v.T))
}

// loadStruct assembles a struct value (datatype) from the heap fields of object obj.
func (e *Env) loadStruct(s *State, structT types.Type, obj string) Value {
	st := structT.Underlying().(*types.Struct)
	srt := e.sr.sortOf(structT)
	ss := e.sr.structs[srt]
	var args []string
	for i := 0; i < st.NumFields(); i++ {
		args = append(args, e.loadField(s, structT, obj, i).T)
	}
	return Value{T: app(ss.Ctor, args...), Sort: srt, GoT: structT}
}

func (e *Env) storeStruct(s *State, structT types.Type, obj string, v Value) {
	st := structT.Underlying().(*types.Struct)
	srt := e.sr.sortOf(structT)
	ss := e.sr.structs[srt]
	for i := 0; i < st.NumFields(); i++ {
		f := st.Field(i)
		fv := Value{T: app(ss.Fields[i].Name, v.T), Sort: ss.Fields[i].Sort, GoT: f.Type()}
		e.storeField(s, structT, obj, i, fv)
	}
}

// structField selects field idx from a struct value (datatype term).
func (e *Env) structField(v Value, idx int) Value {
	st := v.GoT.Underlying().(*types.Struct)
	srt := e.sr.sortOf(v.GoT)
	ss := e.sr.structs[srt]
	return Value{T: app(ss.Fields[idx].Name, v.T), Sort: ss.Fields[idx].Sort, GoT: st.Field(idx).Type()}
}

// withStructField returns v with field idx replaced by nv.
func (e *Env) withStructField(v Value, idx int, nv string) Value {
	srt := e.sr.sortOf(v.GoT)
	ss := e.sr.structs[srt]
	var args []string
	for i := range ss.Fields {
		if i == idx {
			args = append(args, nv)
		} else {
			args = append(args, app(ss.Fields[i].Name, v.T))
		}
	}
	return Value{T: app(ss.Ctor, args...), Sort: srt, GoT: v.GoT}
}

// ---- allocation ----

func (e *Env) allocRef(s *State, hint string) string {
	r := e.ctx.freshConst("new."+hint, "Int")
	if e.ctx.allocs == nil {
		e.ctx.allocs = map[string]bool{}
	}
	e.ctx.allocs[r] = true
	s.assume("(> " + r + " " + s.alloc + ")")
	s.assume("(> " + r + " 0)")
	s.alloc = r
	return r
}

// allocStruct allocates a zero-initialised struct object.
func (e *Env) allocStruct(s *State, structT types.Type, hint string) string {
	r := e.allocRef(s, hint)
	e.zeroStruct(s, structT, r)
	return r
}

func (e *Env) zeroStruct(s *State, structT types.Type, r string) {
	st := structT.Underlying().(*types.Struct)
	for i := 0; i < st.NumFields(); i++ {
		f := st.Field(i)
		if _, isStruct := f.Type().Underlying().(*types.Struct); isStruct {
			e.zeroStruct(s, f.Type(), e.embRef(structT, f.Name(), r))
			continue
		}
		e.storeField(s, structT, r, i, Value{T: e.zero(f.Type()), Sort: e.sr.sortOf(f.Type()), GoT: f.Type()})
	}
}

func (e *Env) zero(t types.Type) string {
	z := e.sr.zeroValue(t)
	if strings.HasPrefix(z, "zero!") {
		e.ctx.declConst(z, strings.TrimPrefix(z, "zero!"))
	}
	return z
}

// ---- slices ----

func sliceBase(s string) string { return app("sbase", s) }
func sliceOff(s string) string  { return app("soff", s) }
func sliceLen(s string) string  { return app("slen_", s) }
func sliceCap(s string) string  { return app("scap", s) }
func mkSlice(b, o, l, c string) string {
	return app("mk-slice", b, o, l, c)
}

func add(a, b string) string {
	if a == "0" {
		return b
	}
	if b == "0" {
		return a
	}
	return "(+ " + a + " " + b + ")"
}
func sub(a, b string) string {
	if b == "0" {
		return a
	}
	return "(- " + a + " " + b + ")"
}

func (e *Env) elemMap(s *State, elemT types.Type) (name, srt, term string) {
	es := e.sr.sortOf(elemT)
	name = elemMapNameT(elemT)
	srt = arr("Int", arr("Int", es))
	e.noteMapType(name, elemT, "elem")
	return name, srt, e.heapGet(s, name, srt)
}

// sliceElem reads s[i] (no bounds check here).
func (e *Env) sliceElem(s *State, sl Value, idx string) Value {
	elemT := sl.GoT.Underlying().(*types.Slice).Elem()
	_, _, m := e.elemMap(s, elemT)
	return Value{T: sel2(sel2(m, sliceBase(sl.T)), add(sliceOff(sl.T), idx)), Sort: e.sr.sortOf(elemT), GoT: elemT}
}

// sliceWellFormed: structural facts about any slice value.
func sliceWF(t string) string {
	return and("(<= 0 "+sliceOff(t)+")", "(<= 0 "+sliceLen(t)+")", "(<= "+sliceLen(t)+" "+sliceCap(t)+")",
		"(>= "+sliceBase(t)+" 0)", "(<= (+ "+sliceOff(t)+" "+sliceCap(t)+") 9223372036854775807)",
		implies(eq(sliceBase(t), "0"), eq(sliceCap(t), "0")))
}

// typeFacts returns the facts every well-typed value of type t satisfies (ranges, slice shape,
// references not beyond the allocation counter).
func (e *Env) typeFacts(s *State, v Value) string {
	if v.GoT == nil {
		return "true"
	}
	switch u := v.GoT.Underlying().(type) {
	case *types.Basic:
		if u.Info()&types.IsInteger != 0 {
			return rangeFact(v.T, v.GoT)
		}
		if u.Info()&types.IsString != 0 {
			return "(>= (slen " + v.T + ") 0)"
		}
	case *types.Pointer, *types.Map, *types.Chan, *types.Signature:
		if v.Addr != nil {
			return "true"
		}
		// references: nil is 0, allocated objects are positive and not beyond the allocation counter,
		// interior references to embedded structs are negative
		if s != nil && s.alloc != "" {
			return "(<= " + v.T + " " + s.alloc + ")"
		}
		return "true"
	case *types.Slice:
		f := sliceWF(v.T)
		if s != nil && s.alloc != "" {
			f = and(f, "(<= "+sliceBase(v.T)+" "+s.alloc+")")
		}
		return f
	case *types.Interface:
		if s != nil && s.alloc != "" {
			return "(<= (valref " + v.T + ") " + s.alloc + ")"
		}
	case *types.Struct:
		var fs []string
		for i := 0; i < u.NumFields(); i++ {
			fs = append(fs, e.typeFacts(s, e.structField(v, i)))
		}
		return and(fs...)
	}
	return "true"
}

func sortedKeys(m map[string]string) []string {
	var ks []string
	for k := range m {
		ks = append(ks, k)
	}
	sort.Strings(ks)
	return ks
}

func fmtPath(s *State) string {
	return fmt.Sprintf("[%s]", strings.Join(s.trace, ","))
}
