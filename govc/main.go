package main

import (
	"encoding/json"
	"flag"
	"fmt"
	"os"
	"path/filepath"
	"sort"
	"strings"
	"time"
)

var (
	verifDir = "/verif"
	repoDir  = "/repo"
)

var mkdbPatterns = []string{"./storage", "./engine", "./sql", "./cmd/console", "./cmd/csvimport"}

func loadAll() (*Program, error) {
	p, err := loadProgram(repoDir, mkdbPatterns)
	if err != nil {
		return nil, err
	}
	for _, f := range p.contractFiles(filepath.Join(verifDir, "stubs")) {
		if err := p.loadContracts(f); err != nil {
			return nil, err
		}
	}
	return p, nil
}

func main() {
	if v := os.Getenv("VERIF_DIR"); v != "" {
		verifDir = v
	}
	if v := os.Getenv("VERIF_REPO"); v != "" {
		repoDir = v
	}
	if len(os.Args) < 2 {
		fmt.Fprintln(os.Stderr, "usage: govc verify|check|list ...")
		os.Exit(2)
	}
	switch os.Args[1] {
	case "verify":
		cmdVerify(os.Args[2:])
	case "check":
		os.Exit(cmdCheck(os.Args[2:]))
	case "list":
		cmdList(os.Args[2:])
	case "names":
		cmdNames()
	default:
		fmt.Fprintln(os.Stderr, "unknown command", os.Args[1])
		os.Exit(2)
	}
}

func cmdList(args []string) {
	p, err := loadAll()
	if err != nil {
		fmt.Fprintln(os.Stderr, "load error:", err)
		os.Exit(2)
	}
	var keys []string
	for k := range p.funcs {
		if len(args) == 0 || strings.Contains(k, args[0]) {
			keys = append(keys, k)
		}
	}
	sort.Strings(keys)
	for _, k := range keys {
		mark := " "
		if p.contract[k] != nil {
			mark = "*"
		}
		fmt.Println(mark, k)
	}
}

// cmdVerify verifies the named functions (substring match on keys) and prints every obligation.
func cmdVerify(args []string) {
	fs := flag.NewFlagSet("verify", flag.ExitOnError)
	secs := fs.Int("t", 10, "solver timeout (s)")
	verbose := fs.Bool("v", false, "print all obligations")
	maxShow := fs.Int("n", 8, "max distinct failing obligations shown per function")
	keep := fs.String("work", filepath.Join(verifDir, ".work", "verify"), "work dir")
	fs.Parse(args)
	t0 := time.Now()
	p, err := loadAll()
	if err != nil {
		fmt.Fprintln(os.Stderr, "load error:", err)
		os.Exit(2)
	}
	fmt.Printf("loaded in %.1fs\n", time.Since(t0).Seconds())
	sr := newSortReg()
	var keys []string
	for k, c := range p.contract {
		if c.Trusted || c.Iface {
			continue
		}
		match := fs.NArg() == 0
		for _, a := range fs.Args() {
			if strings.Contains(k, a) {
				match = true
			}
		}
		if match {
			keys = append(keys, k)
		}
	}
	sort.Strings(keys)
	os.RemoveAll(*keep)
	bad := 0
	for _, k := range keys {
		fn := p.funcs[k]
		if fn == nil {
			fmt.Printf("UNBOUND %s: no such function\n", k)
			bad++
			continue
		}
		t1 := time.Now()
		v := newVerifier(p, sr, fn, p.contract[k])
		res := v.run()
		if res.ContractErr != "" {
			fmt.Printf("CONTRACT-ERROR %s: %s\n", k, res.ContractErr)
			bad++
		}
		if res.Unsupported != "" {
			fmt.Printf("UNSUPPORTED %s: %s\n", k, res.Unsupported)
			bad++
			if strings.HasPrefix(res.Unsupported, "too many paths") {
				// thousands of paths with their queries: nothing of it is written or solved (it once filled the disk)
				res.Obls = nil
			}
		}
		solveAll(res.Obls, filepath.Join(*keep, safeName(k)), *secs, 16)
		ok, fail := 0, 0
		seenFail := map[string]bool{}
		shown := 0
		for _, o := range res.Obls {
			if o.Info {
				if o.Result.Status == "unsat" {
					fmt.Printf("  info: return at %s on path %s is unreachable under the contracts\n", o.Pos, o.Path)
				}
				continue
			}
			good := o.Result.Status == "unsat"
			if o.Cover {
				good = o.Result.Status != "unsat"
			}
			if good {
				ok++
			} else {
				fail++
			}
			if *verbose || (!good && !seenFail[o.ID]) {
				first := !seenFail[o.ID]
				seenFail[o.ID] = true
				if !*verbose && strings.Contains(o.ID, "/frame.") && seenFail[k+"/frame.unknown-callee"] && !strings.HasSuffix(o.ID, "unknown-callee") {
					continue
				}
				if *verbose || (first && shown < *maxShow) {
					shown++
					fmt.Printf("  %-8s %-66s %s %.2fs %s %s  {%s}\n", o.Result.Status, strings.TrimPrefix(o.ID, k+"/"), o.Result.Solver, o.Result.TimeS, o.Path, o.Pos, trunc(o.Text, 60))
				}
			}
		}
		bad += fail
		fmt.Printf("%s: %d obligations, %d ok, %d failed (%d distinct), %d paths, %.1fs\n", k, len(res.Obls), ok, fail, len(seenFail), res.Paths, time.Since(t1).Seconds())
		for i, n := range dedupe(res.Notes) {
			if i < 4 || *verbose {
				fmt.Printf("  note: %s\n", n)
			}
		}
	}
	if bad > 0 {
		os.Exit(1)
	}
}

func trunc(s string, n int) string {
	if len(s) > n {
		return s[:n] + "…"
	}
	return s
}

// cmdNames records, for every function under contract, which SSA values the source names of its locals stand for
// (baseline/names.json, maintenance only; see applyRecordedNames).
func cmdNames() {
	p, err := loadAll()
	if err != nil {
		fmt.Fprintln(os.Stderr, "load error:", err)
		os.Exit(2)
	}
	sr := newSortReg()
	out := map[string]map[string][]recName{}
	recordedNamesLoaded = true // do not alias while recording
	recordedNames = map[string]map[string][]recName{}
	for k, c := range p.contract {
		if c.Trusted || c.Iface || p.funcs[k] == nil || len(p.funcs[k].Blocks) == 0 {
			continue
		}
		func() {
			defer func() { recover() }()
			v := newVerifier(p, sr, p.funcs[k], c)
			v.analyse()
			out[k] = v.currentNames()
		}()
	}
	b, _ := json.MarshalIndent(out, "", " ")
	os.MkdirAll(filepath.Join(verifDir, "baseline"), 0o755)
	os.WriteFile(namesFile(), b, 0o644)
	fmt.Printf("recorded the local names of %d functions in %s\n", len(out), namesFile())
}
