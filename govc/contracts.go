package main

import (
	"bufio"
	"fmt"
	"os"
	"path/filepath"
	"regexp"
	"strconv"
	"strings"
)

type Clause struct {
	Assumed bool                                                        // unproved postcondition: used at call sites, not proved for the function (listed as an assumption)
	Witness map[string]string                                           // existential variable -> local variable name used as witness at returns
	Raw     func(phis []Value, operand func(interface{}) string) string // engine-generated clause (auto invariants)
	Label   string
	Props   []string
	E       Expr
	Text    string
	Src     string
}

type LoopSpec struct {
	Invariants []*Clause
	Exits      []*Clause // proved on every edge that leaves the loop for the code after it (not on returns)
	Decreases  *Clause
	Binds      map[string]int // name -> phi ordinal at the loop head
	Modifies   []Expr
}

type ModItem struct {
	Kind string // "field", "elems", "all", "cell", "ghost", "map", "everything"
	E    Expr   // object / slice / pointer expression
	Name string // field name / type.field / ghost name
}

type Contract struct {
	Key        string
	Pkg        string
	Props      []string
	Requires   []*Clause
	Ensures    []*Clause
	Modifies   []ModItem
	HasMod     bool
	Loops      map[int]*LoopSpec
	Decreases  *Clause
	Pure       bool
	Trusted    bool
	NoPanic    bool      // documentation only: nopanic obligations are always generated
	Assumes    []*Clause // assume clauses placed at function entry (counted as assumptions)
	Asserts    map[string][]*Clause
	Src        string
	Iface      bool
	Ghost      bool   // ghost function (no body): contract only
	Params     []QVar // for ghost functions / interface methods declared in spec
	Results    []QVar
	RecvName   string
	Delegate   *TypeExpr                // interface method contract = contract of this concrete type's method
	Callbacks  map[string]*CallbackSpec // function-typed parameter -> what the function promises about its calls of it
	Invariants []*Clause                // closure invariants: hold before and after every call (assumed at entry, proved at return)
	Partial    bool                     // only the explicit clauses (post/inv/dec) are claimed: implicit obligations (no-panic, callee preconditions, frame) are assumed, i.e. the clauses hold for runs that return normally
	Prune      bool                     // check branch feasibility during symbolic execution and skip infeasible branches
	AssumeDead map[string]string        // "file.go:line" of the first statement of a branch -> label: assumed never taken (listed)
	WaivePre   map[string]string        // "callee.label" -> reason: that precondition is neither proved nor assumed at the call sites in this function (listed)
	AssumePre  map[string]string        // "callee.label" -> reason: that precondition of that callee is assumed at the call sites in this function (listed)
	Reveal     []string                 // opaque spec predicates whose definition this function's proof may use
	AllowPanic []string                 // explicit panic kinds that are part of the specified behaviour
}

// CallbackSpec: the higher-order function calls parameter f any number of times; every call passes
// arguments satisfying Guarantees; the callback must leave the Preserves maps alone.
type CallbackSpec struct {
	ArgNames   []string
	Guarantees []*Clause
	Preserves  []ModItem
	Marks      []Expr // ghost applications g(arg) set to true at every call of the callback (boolean per-object ghost variables)
}

type SpecFunc struct {
	Abstract bool // uninterpreted function of its arguments only (no heap); constrained by axioms
	Opaque   bool // callers see an uninterpreted predicate over its heap footprint unless they reveal it
	Name     string
	Pkg      string
	Params   []QVar
	Ret      *TypeExpr // nil for pred (bool)
	Body     Expr
	Text     string
}

type GhostVar struct {
	Name    string
	Pkg     string
	Key     *TypeExpr // nil: global ghost; else: per-object ghost (map from ref)
	Key2    *TypeExpr // second key (two-dimensional ghost), or nil
	T       *TypeExpr
	History bool // a history ghost: anybody may change it (no frame obligations; havocked by every call that is not pure)
}

type Lemma struct {
	Name   string
	Pkg    string
	E      Expr
	Text   string
	Props  []string
	Src    string
	Induct string // non-empty: proved by induction on this (integer, universally quantified) variable and then used as an axiom
}

var clauseKeywords = map[string]bool{
	"requires": true, "ensures": true, "ensures_assumed": true, "modifies": true, "loop": true, "decreases": true,
	"props": true, "pure": true, "trusted": true, "func": true, "spec": true, "ghost": true,
	"lemma": true, "axiom": true, "assume": true, "package": true, "nopanic": true, "iface": true,
	"callback": true, "invariant": true, "assumedead": true, "assumepre": true, "waivepre": true,
	"allowpanic": true, "delegates": true, "reveal": true, "owned": true, "prune": true, "partial": true,
}

var funcHdr = regexp.MustCompile(`^func\s+(?:\(\s*(?:([\w]+)\s+)?(\*?)([\w.]+)\s*\)\s*)?([\w$]+)\s*\(`)

// loadContracts parses one contract file into the program's registries.
func (p *Program) loadContracts(path string) error {
	f, err := os.Open(path)
	if err != nil {
		return err
	}
	defer f.Close()
	p.files = append(p.files, path)
	pkg := ""
	if filepath.Base(path) == "verif_contracts.go" {
		pkg = filepath.Base(filepath.Dir(path))
	}
	// gather logical clauses: a clause starts at a line whose first word is a keyword and
	// continues over following non-keyword lines
	type raw struct {
		text string
		line int
	}
	var clauses []raw
	sc := bufio.NewScanner(f)
	sc.Buffer(make([]byte, 1<<20), 1<<20)
	ln := 0
	for sc.Scan() {
		ln++
		line := sc.Text()
		t := strings.TrimSpace(line)
		if !strings.HasPrefix(t, "//@") {
			continue
		}
		t = strings.TrimPrefix(t, "//@")
		// strip trailing comments
		if i := strings.Index(t, " //"); i >= 0 {
			t = t[:i]
		}
		t = strings.TrimSpace(t)
		if t == "" || strings.HasPrefix(t, "//") {
			continue
		}
		first := t
		if i := strings.IndexAny(t, " \t[("); i >= 0 {
			first = t[:i]
		}
		if clauseKeywords[first] {
			clauses = append(clauses, raw{t, ln})
		} else if len(clauses) > 0 {
			clauses[len(clauses)-1].text += " " + t
		} else {
			return fmt.Errorf("%s:%d: continuation line without clause", path, ln)
		}
	}
	var cur *Contract
	for _, rc := range clauses {
		src := fmt.Sprintf("%s:%d", filepath.Base(filepath.Dir(path))+"/"+filepath.Base(path), rc.line)
		t := rc.text
		word, rest := splitWord(t)
		fail := func(err error) error { return fmt.Errorf("%s: %v", src, err) }
		switch word {
		case "package":
			pkg = strings.TrimSpace(rest)
			cur = nil
		case "func", "iface":
			m := funcHdr.FindStringSubmatch(t)
			if word == "iface" {
				m = funcHdr.FindStringSubmatch("func" + t[len("iface"):])
			}
			if m == nil {
				return fail(fmt.Errorf("bad function header %q", t))
			}
			key := pkg + "." + m[4]
			if m[3] != "" {
				key = fmt.Sprintf("%s.(%s%s).%s", pkg, m[2], m[3], m[4])
			}
			if _, dup := p.contract[key]; dup {
				return fail(fmt.Errorf("duplicate contract for %s", key))
			}
			cur = &Contract{Key: key, Pkg: pkg, Loops: map[int]*LoopSpec{}, Src: src, Iface: word == "iface", Asserts: map[string][]*Clause{}, RecvName: m[1]}
			p.contract[key] = cur
		case "owned":
			cur = nil
			for _, f := range strings.Fields(strings.ReplaceAll(rest, ",", " ")) {
				parts := strings.Split(f, ".")
				if len(parts) != 2 {
					return fail(fmt.Errorf("owned needs Type.field: %q", f))
				}
				if p.owned == nil {
					p.owned = map[string]bool{}
				}
				p.owned[pkg+"."+parts[0]+"."+parts[1]] = true
			}
		case "spec":
			cur = nil
			if err := p.parseSpecDecl(pkg, rest, src); err != nil {
				return fail(err)
			}
		case "ghost":
			cur = nil
			if err := p.parseGhost(pkg, rest); err != nil {
				return fail(err)
			}
		case "lemma", "axiom":
			cur = nil
			i := strings.Index(rest, ":")
			if i < 0 {
				return fail(fmt.Errorf("lemma needs 'name: formula'"))
			}
			label, props := parseTag(&rest)
			_ = label
			i = strings.Index(rest, ":")
			name := strings.TrimSpace(rest[:i])
			induct := ""
			if j := strings.Index(name, " by induction on "); j >= 0 {
				induct = strings.TrimSpace(name[j+len(" by induction on "):])
				name = strings.TrimSpace(name[:j])
			}
			e, err := parseExpr(rest[i+1:])
			if err != nil {
				return fail(err)
			}
			l := &Lemma{Name: name, Pkg: pkg, E: e, Text: strings.TrimSpace(rest[i+1:]), Props: props, Src: src, Induct: induct}
			if word == "lemma" {
				p.lemmas = append(p.lemmas, l)
				if induct != "" {
					// a lemma proved by induction is available to every function as a hypothesis; its proof
					// obligations (base, step, negative range) belong to the checks of the tagged properties
					p.axioms = append(p.axioms, l)
				}
			} else {
				p.axioms = append(p.axioms, l)
			}
		default:
			if cur == nil {
				return fail(fmt.Errorf("clause %q outside a function contract", word))
			}
			if err := p.parseClause(cur, word, rest, src); err != nil {
				return fail(err)
			}
		}
	}
	return nil
}

func splitWord(t string) (string, string) {
	t = strings.TrimSpace(t)
	i := strings.IndexAny(t, " \t[")
	if i < 0 {
		return t, ""
	}
	return t[:i], strings.TrimSpace(t[i:])
}

var lastWitness map[string]string

// parseTag strips a leading "[label; C01 C02]" tag from *rest.
func parseTag(rest *string) (label string, props []string) {
	r := strings.TrimSpace(*rest)
	if !strings.HasPrefix(r, "[") {
		return "", nil
	}
	j := strings.Index(r, "]")
	if j < 0 {
		return "", nil
	}
	tag := r[1:j]
	*rest = strings.TrimSpace(r[j+1:])
	parts := strings.SplitN(tag, ";", 3)
	label = strings.TrimSpace(parts[0])
	if len(parts) >= 2 {
		props = strings.Fields(parts[1])
	}
	if len(parts) == 3 {
		lastWitness = map[string]string{}
		for _, f := range strings.Fields(strings.TrimPrefix(strings.TrimSpace(parts[2]), "witness")) {
			kv := strings.SplitN(f, "=", 2)
			if len(kv) == 2 {
				lastWitness[kv[0]] = kv[1]
			}
		}
	}
	// a tag consisting only of property ids
	if len(parts) == 1 && regexp.MustCompile(`^(C\d+\s*)+$`).MatchString(label) {
		props = strings.Fields(label)
		label = ""
	}
	return
}

func (p *Program) parseClause(c *Contract, word, rest, src string) error {
	mk := func(rest string) (*Clause, error) {
		lastWitness = nil
		label, props := parseTag(&rest)
		e, err := parseExpr(rest)
		if err != nil {
			return nil, err
		}
		return &Clause{Label: label, Props: props, E: e, Text: rest, Src: src, Witness: lastWitness}, nil
	}
	switch word {
	case "props":
		c.Props = append(c.Props, strings.Fields(rest)...)
	case "pure":
		c.Pure = true
		c.HasMod = true
	case "trusted":
		c.Trusted = true
	case "nopanic":
		c.NoPanic = true
	case "allowpanic":
		c.AllowPanic = append(c.AllowPanic, strings.Fields(rest)...)
	case "prune":
		c.Prune = true
	case "assumepre":
		// assumepre callee.label reason words...: the labelled precondition of callee is not proved at the
		// call sites in this function but assumed (listed as an assumption in the evidence)
		w, r := splitWord(rest)
		if c.AssumePre == nil {
			c.AssumePre = map[string]string{}
		}
		c.AssumePre[w] = strings.TrimSpace(r)
	case "waivepre":
		// waivepre callee.label reason words...: the labelled precondition of callee is neither proved nor added
		// to the state at the call sites in this function (it concerns a typestate that does not apply there);
		// listed as an assumption in the evidence
		w, r := splitWord(rest)
		if c.WaivePre == nil {
			c.WaivePre = map[string]string{}
		}
		c.WaivePre[w] = strings.TrimSpace(r)
	case "assumedead":
		// assumedead file.go:LINE label words...
		w, r := splitWord(rest)
		if c.AssumeDead == nil {
			c.AssumeDead = map[string]string{}
		}
		c.AssumeDead[w] = strings.TrimSpace(r)
	case "partial":
		c.Partial = true
	case "invariant":
		cl, err := mk(rest)
		if err != nil {
			return err
		}
		if cl.Label == "" {
			cl.Label = strconv.Itoa(len(c.Invariants) + 1)
		}
		c.Invariants = append(c.Invariants, cl)
	case "callback":
		// callback f(kv) guarantees E   |   callback f preserves items
		m := regexp.MustCompile(`^(\w+)\s*(?:\(([^)]*)\))?\s*(guarantees|preserves|marks)\s*(.*)$`).FindStringSubmatch(rest)
		if m == nil {
			return fmt.Errorf("bad callback clause %q", rest)
		}
		if c.Callbacks == nil {
			c.Callbacks = map[string]*CallbackSpec{}
		}
		cb := c.Callbacks[m[1]]
		if cb == nil {
			cb = &CallbackSpec{}
			c.Callbacks[m[1]] = cb
		}
		if strings.TrimSpace(m[2]) != "" {
			cb.ArgNames = nil
			for _, a := range strings.Split(m[2], ",") {
				cb.ArgNames = append(cb.ArgNames, strings.TrimSpace(a))
			}
		}
		if m[3] == "marks" {
			e, err := parseExpr(m[4])
			if err != nil {
				return err
			}
			cb.Marks = append(cb.Marks, e)
		} else if m[3] == "guarantees" {
			cl, err := mk(m[4])
			if err != nil {
				return err
			}
			cb.Guarantees = append(cb.Guarantees, cl)
		} else {
			items, err := parseModifies(m[4])
			if err != nil {
				return err
			}
			cb.Preserves = append(cb.Preserves, items...)
		}
	case "reveal":
		for _, f := range strings.Fields(strings.ReplaceAll(rest, ",", " ")) {
			c.Reveal = append(c.Reveal, f)
		}
	case "delegates":
		te, err := parseTypeString(strings.TrimSpace(rest))
		if err != nil {
			return err
		}
		c.Delegate = te
	case "requires":
		cl, err := mk(rest)
		if err != nil {
			return err
		}
		if cl.Label == "" {
			cl.Label = strconv.Itoa(len(c.Requires) + 1)
		}
		c.Requires = append(c.Requires, cl)
	case "ensures", "ensures_assumed":
		cl, err := mk(rest)
		if err != nil {
			return err
		}
		cl.Assumed = word == "ensures_assumed"
		if cl.Label == "" {
			cl.Label = strconv.Itoa(len(c.Ensures) + 1)
		}
		c.Ensures = append(c.Ensures, cl)
	case "assume":
		cl, err := mk(rest)
		if err != nil {
			return err
		}
		if cl.Label == "" {
			cl.Label = strconv.Itoa(len(c.Assumes) + 1)
		}
		c.Assumes = append(c.Assumes, cl)
	case "decreases":
		cl, err := mk(rest)
		if err != nil {
			return err
		}
		c.Decreases = cl
	case "modifies":
		c.HasMod = true
		items, err := parseModifies(rest)
		if err != nil {
			return err
		}
		c.Modifies = append(c.Modifies, items...)
	case "loop":
		w, r := splitWord(rest)
		k, err := strconv.Atoi(w)
		if err != nil {
			return fmt.Errorf("loop needs an ordinal: %q", rest)
		}
		ls := c.Loops[k]
		if ls == nil {
			ls = &LoopSpec{Binds: map[string]int{}}
			c.Loops[k] = ls
		}
		w2, r2 := splitWord(r)
		switch w2 {
		case "invariant":
			cl, err := mk(r2)
			if err != nil {
				return err
			}
			if cl.Label == "" {
				cl.Label = strconv.Itoa(len(ls.Invariants) + 1)
			}
			ls.Invariants = append(ls.Invariants, cl)
		case "exit":
			cl, err := mk(r2)
			if err != nil {
				return err
			}
			if cl.Label == "" {
				cl.Label = strconv.Itoa(len(ls.Exits) + 1)
			}
			ls.Exits = append(ls.Exits, cl)
		case "decreases":
			cl, err := mk(r2)
			if err != nil {
				return err
			}
			ls.Decreases = cl
		case "binds":
			for _, b := range strings.Fields(r2) {
				kv := strings.SplitN(b, "=", 2)
				if len(kv) != 2 || !strings.HasPrefix(kv[1], "phi") {
					return fmt.Errorf("bad binds %q", b)
				}
				n, err := strconv.Atoi(kv[1][3:])
				if err != nil {
					return err
				}
				ls.Binds[kv[0]] = n
			}
		default:
			return fmt.Errorf("unknown loop clause %q", w2)
		}
	default:
		return fmt.Errorf("unknown clause %q", word)
	}
	return nil
}

func parseModifies(rest string) ([]ModItem, error) {
	// expand @name macros (spec modset name = items)
	for i := 0; i < 5 && strings.Contains(rest, "@"); i++ {
		rest = regexp.MustCompile(`@(\w+)`).ReplaceAllStringFunc(rest, func(m string) string {
			if body, ok := modsetMacros[m[1:]]; ok {
				return body
			}
			return m
		})
	}
	var items []ModItem
	for _, part := range splitTop(rest, ',') {
		part = strings.TrimSpace(part)
		if part == "" {
			continue
		}
		if part == "nothing" {
			continue
		}
		if part == "everything" {
			items = append(items, ModItem{Kind: "everything"})
			continue
		}
		e, err := parseExpr(part)
		if err != nil {
			return nil, err
		}
		switch x := e.(type) {
		case *ECall:
			if id, ok := x.Fn.(*EIdent); ok {
				switch id.Name {
				case "elems":
					items = append(items, ModItem{Kind: "elems", E: x.Args[0]})
					continue
				case "cell":
					items = append(items, ModItem{Kind: "cell", E: x.Args[0]})
					continue
				case "fields":
					items = append(items, ModItem{Kind: "fields", E: x.Args[0]})
					continue
				case "mapof":
					items = append(items, ModItem{Kind: "map", E: x.Args[0]})
					continue
				case "all":
					if f, ok := x.Args[0].(*EField); ok {
						if t, ok := f.X.(*EIdent); ok {
							items = append(items, ModItem{Kind: "all", Name: t.Name + "." + f.Name})
							continue
						}
						if t, ok := f.X.(*EField); ok {
							if pk, ok := t.X.(*EIdent); ok {
								items = append(items, ModItem{Kind: "all", Name: pk.Name + "." + t.Name + "." + f.Name})
								continue
							}
						}
					}
					return nil, fmt.Errorf("all() needs Type.field: %q", part)
				case "cachemaps":
					items = append(items, ModItem{Kind: "allmap"})
					continue
				case "allelems":
					if t, ok := x.Args[0].(*ETypeLit); ok {
						items = append(items, ModItem{Kind: "allelems", Name: t.T.String()})
						continue
					}
					if t, ok := x.Args[0].(*EIdent); ok {
						items = append(items, ModItem{Kind: "allelems", Name: t.Name})
						continue
					}
					return nil, fmt.Errorf("allelems() needs a type: %q", part)
				default:
					// ghost var with argument
					items = append(items, ModItem{Kind: "ghost", Name: id.Name, E: x.Args[0]})
					continue
				}
			}
			return nil, fmt.Errorf("bad modifies item %q", part)
		case *EField:
			items = append(items, ModItem{Kind: "field", E: x.X, Name: x.Name})
		case *EIdent:
			items = append(items, ModItem{Kind: "ghost", Name: x.Name})
		default:
			return nil, fmt.Errorf("bad modifies item %q", part)
		}
	}
	return items, nil
}

// splitTop splits on sep outside parentheses/brackets.
func splitTop(s string, sep byte) []string {
	var out []string
	depth := 0
	last := 0
	for i := 0; i < len(s); i++ {
		switch s[i] {
		case '(', '[', '{':
			depth++
		case ')', ']', '}':
			depth--
		default:
			if s[i] == sep && depth == 0 {
				out = append(out, s[last:i])
				last = i + 1
			}
		}
	}
	out = append(out, s[last:])
	return out
}

var specAbstractHdr = regexp.MustCompile(`^abstract\s+(\w+)\s*\(([^)]*)\)\s*(.*)$`)
var specModsetHdr = regexp.MustCompile(`^modset\s+(\w+)\s*=\s*(.+)$`)
var modsetMacros = map[string]string{}
var specFuncHdr = regexp.MustCompile(`^(func|pred|opaque)\s+(\w+)\s*\(([^)]*)\)\s*([^{]*)\{(.*)\}\s*$`)
var specConstHdr = regexp.MustCompile(`^const\s+(\w+)\s*=\s*(.+)$`)

func (p *Program) parseSpecDecl(pkg, rest, src string) error {
	if m := specConstHdr.FindStringSubmatch(rest); m != nil {
		p.specCst[pkg+"."+m[1]] = strings.TrimSpace(m[2])
		return nil
	}
	if m := specModsetHdr.FindStringSubmatch(rest); m != nil {
		modsetMacros[m[1]] = m[2]
		return nil
	}
	if m := specAbstractHdr.FindStringSubmatch(rest); m != nil {
		sf := &SpecFunc{Name: m[1], Pkg: pkg, Abstract: true}
		params, err := parseParams(m[2])
		if err != nil {
			return err
		}
		sf.Params = params
		if rt := strings.TrimSpace(m[3]); rt != "" && rt != "bool" {
			te, err := parseTypeString(rt)
			if err != nil {
				return err
			}
			sf.Ret = te
		}
		p.specFn[pkg+"."+sf.Name] = sf
		return nil
	}
	m := specFuncHdr.FindStringSubmatch(rest)
	if m == nil {
		return fmt.Errorf("bad spec declaration %q", rest)
	}
	sf := &SpecFunc{Name: m[2], Pkg: pkg, Text: strings.TrimSpace(m[5]), Opaque: m[1] == "opaque"}
	params, err := parseParams(m[3])
	if err != nil {
		return err
	}
	sf.Params = params
	if m[1] == "func" {
		rt := strings.TrimSpace(m[4])
		if rt == "" {
			return fmt.Errorf("spec func %s needs a result type", m[2])
		}
		te, err := parseTypeString(rt)
		if err != nil {
			return err
		}
		sf.Ret = te
	}
	body, err := parseExpr(m[5])
	if err != nil {
		return err
	}
	sf.Body = body
	if _, dup := p.specFn[pkg+"."+sf.Name]; dup {
		return fmt.Errorf("spec function %s declared twice in package %s", sf.Name, pkg)
	}
	p.specFn[pkg+"."+sf.Name] = sf
	return nil
}

func parseParams(s string) ([]QVar, error) {
	var out []QVar
	s = strings.TrimSpace(s)
	if s == "" {
		return nil, nil
	}
	var pending []string
	for _, part := range splitTop(s, ',') {
		part = strings.TrimSpace(part)
		fs := strings.SplitN(part, " ", 2)
		if len(fs) == 1 {
			pending = append(pending, fs[0])
			continue
		}
		te, err := parseTypeString(strings.TrimSpace(fs[1]))
		if err != nil {
			return nil, err
		}
		for _, n := range pending {
			out = append(out, QVar{Name: n, T: te})
		}
		pending = nil
		out = append(out, QVar{Name: fs[0], T: te})
	}
	if len(pending) > 0 {
		return nil, fmt.Errorf("parameters without type: %v", pending)
	}
	return out, nil
}

func parseTypeString(s string) (*TypeExpr, error) {
	toks, err := lex(s)
	if err != nil {
		return nil, err
	}
	p := &sparser{toks: toks, src: s}
	var te *TypeExpr
	err = p.catch(func() { te = p.typeExpr() })
	return te, err
}

var ghostHdr = regexp.MustCompile(`^var\s+(\w+)\s*(?:\(([^)]*)\))?\s*(.+)$`)

func (p *Program) parseGhost(pkg, rest string) error {
	history := false
	if strings.HasPrefix(strings.TrimSpace(rest), "history ") {
		history = true
		rest = strings.TrimSpace(strings.TrimPrefix(strings.TrimSpace(rest), "history "))
	}
	m := ghostHdr.FindStringSubmatch(rest)
	if m == nil {
		return fmt.Errorf("bad ghost declaration %q", rest)
	}
	g := &GhostVar{Name: m[1], Pkg: pkg, History: history}
	if strings.TrimSpace(m[2]) != "" {
		ps, err := parseParams(m[2])
		if err != nil {
			return err
		}
		if len(ps) < 1 || len(ps) > 2 {
			return fmt.Errorf("ghost variable %s: one or two keys supported", g.Name)
		}
		g.Key = ps[0].T
		if len(ps) == 2 {
			g.Key2 = ps[1].T
		}
	}
	te, err := parseTypeString(strings.TrimSpace(m[3]))
	if err != nil {
		return err
	}
	g.T = te
	p.ghosts[g.Name] = g
	return nil
}
