package main

import (
	"go/types"
	"sort"
)

// ---- interfaces ----

func (e *Env) errCtor() *valCtor {
	name := "V!err"
	if c, ok := e.sr.valCtors[name]; ok {
		return c
	}
	c := &valCtor{Name: name, Sel: "v!err", Sort: "Int", TypeKey: "error-value"}
	e.sr.valCtors[name] = c
	e.sr.valOrder = append(e.sr.valOrder, name)
	return c
}

// makeIface boxes a concrete value into Val.
func (e *Env) makeIface(v Value) Value {
	if v.Sort == "Val" {
		return v
	}
	if v.GoT == nil {
		sfail("cannot box untyped value %s", v.T)
	}
	c := e.sr.valCtorFor(v.GoT)
	if c.Sort == "" {
		return Value{T: c.Name, Sort: "Val", GoT: types.NewInterfaceType(nil, nil)}
	}
	return Value{T: app(c.Name, v.T), Sort: "Val", GoT: types.NewInterfaceType(nil, nil)}
}

// valIsType: does interface value v hold dynamic type t (or, for interface t, any non-nil value)?
func (e *Env) valIsType(v Value, t types.Type) string {
	if it, ok := t.Underlying().(*types.Interface); ok {
		if it.NumMethods() == 0 || isErrorType(t) {
			return not(eq(v.T, "VNil"))
		}
		// method set check is not modelled: approximated by non-nil
		return not(eq(v.T, "VNil"))
	}
	c := e.sr.valCtorFor(t)
	return "((_ is " + c.Name + ") " + v.T + ")"
}

// valPayload extracts the payload of dynamic type t from interface value v.
func (e *Env) valPayload(v Value, t types.Type) Value {
	if _, ok := t.Underlying().(*types.Interface); ok {
		return Value{T: v.T, Sort: "Val", GoT: t}
	}
	c := e.sr.valCtorFor(t)
	if c.Sort == "" {
		return Value{T: e.zero(t), Sort: e.sr.sortOf(t), GoT: t}
	}
	return Value{T: app(c.Sel, v.T), Sort: c.Sort, GoT: t}
}

// ---- globals ----

// globalValue returns the (immutable) value of a package-level variable.
func (e *Env) globalValue(s *State, pk string, v *types.Var) Value {
	name := "G!" + pk + "." + v.Name()
	srt := e.sr.sortOf(v.Type())
	first := !e.ctx.declared[name]
	e.ctx.declConst(name, srt)
	val := Value{T: name, Sort: srt, GoT: v.Type()}
	if first {
		if isErrorType(v.Type()) {
			c := e.errCtor()
			e.ctx.errIDs++
			e.ctx.axiom(eq(name, app(c.Name, intLit(int64(e.ctx.errIDs)))))
			e.ctx.declFun("errwraps", []string{"Val"}, "Val")
			e.ctx.axiom(eq(app("errwraps", name), "VNil"))
		} else {
			f := e.typeFacts(&State{alloc: "alloc!0"}, val)
			if f != "true" {
				e.ctx.axiom(f)
			}
			if srt == "Int" {
				switch v.Type().Underlying().(type) {
				case *types.Map, *types.Pointer:
					e.ctx.axiom("(> " + name + " 0)")
				}
			}
		}
	}
	return val
}

// freshErr returns a fresh non-nil error value.
func (e *Env) freshErr(s *State) Value {
	c := e.errCtor()
	id := e.ctx.freshConst("errid", "Int")
	s.assume("(> " + id + " 1000000)")
	e.ctx.declFun("errwraps", []string{"Val"}, "Val")
	return Value{T: app(c.Name, id), Sort: "Val", GoT: types.Universe.Lookup("error").Type()}
}

// ---- maps ----

func (e *Env) mapNames(mt *types.Map) (mv, mp, vs, ks string) {
	ks = e.sr.sortOf(mt.Key())
	vs = e.sr.sortOf(mt.Elem())
	suffix := mangle(ks + "!" + vs)
	return "MV!" + suffix, "MP!" + suffix, vs, ks
}

// mlName: the heap map holding the lengths of the Go maps of type mt (one per key/value sort pair).
func (e *Env) mlName(mt *types.Map) string {
	return "ML!" + mangle(e.sr.sortOf(mt.Key())+"!"+e.sr.sortOf(mt.Elem()))
}

func (e *Env) mapGet(s *State, m Value, k Value) Value {
	mt := m.GoT.Underlying().(*types.Map)
	mv, mp, vs, ks := e.mapNames(mt)
	if ks == "Val" && k.Sort != "Val" {
		k = e.makeIface(k)
	}
	vals := e.heapGet(s, mv, arr("Int", arr(ks, vs)))
	pres := e.heapGet(s, mp, arr("Int", arr(ks, "Bool")))
	has := sel2(sel2(pres, m.T), k.T)
	return Value{T: ite(has, sel2(sel2(vals, m.T), k.T), e.zero(mt.Elem())), Sort: vs, GoT: mt.Elem()}
}

func (e *Env) mapHas(s *State, m Value, k Value) string {
	mt := m.GoT.Underlying().(*types.Map)
	_, mp, _, ks := e.mapNames(mt)
	if ks == "Val" && k.Sort != "Val" {
		k = e.makeIface(k)
	}
	pres := e.heapGet(s, mp, arr("Int", arr(ks, "Bool")))
	return sel2(sel2(pres, m.T), k.T)
}

func (e *Env) mapLen(s *State, m Value) string {
	ml := e.heapGet(s, e.mlName(m.GoT.Underlying().(*types.Map)), arr("Int", "Int"))
	return sel2(ml, m.T)
}

func (e *Env) mapSet(s *State, m Value, k Value, v Value) {
	mt := m.GoT.Underlying().(*types.Map)
	mv, mp, vs, ks := e.mapNames(mt)
	if ks == "Val" && k.Sort != "Val" {
		k = e.makeIface(k)
	}
	if vs == "Val" && v.Sort != "Val" {
		v = e.makeIface(v)
	}
	vals := e.heapGet(s, mv, arr("Int", arr(ks, vs)))
	pres := e.heapGet(s, mp, arr("Int", arr(ks, "Bool")))
	ml := e.heapGet(s, e.mlName(mt), arr("Int", "Int"))
	had := sel2(sel2(pres, m.T), k.T)
	e.heapSet(s, e.mlName(mt), arr("Int", "Int"), sto(ml, m.T, ite(had, sel2(ml, m.T), add(sel2(ml, m.T), "1"))))
	e.heapSet(s, mv, arr("Int", arr(ks, vs)), sto(vals, m.T, sto(sel2(vals, m.T), k.T, v.T)))
	e.heapSet(s, mp, arr("Int", arr(ks, "Bool")), sto(pres, m.T, sto(sel2(pres, m.T), k.T, "true")))
}

func (e *Env) mapDelete(s *State, m Value, k Value) {
	mt := m.GoT.Underlying().(*types.Map)
	_, mp, _, ks := e.mapNames(mt)
	if ks == "Val" && k.Sort != "Val" {
		k = e.makeIface(k)
	}
	pres := e.heapGet(s, mp, arr("Int", arr(ks, "Bool")))
	ml := e.heapGet(s, e.mlName(mt), arr("Int", "Int"))
	had := sel2(sel2(pres, m.T), k.T)
	e.heapSet(s, e.mlName(mt), arr("Int", "Int"), sto(ml, m.T, ite(had, sub(sel2(ml, m.T), "1"), sel2(ml, m.T))))
	e.heapSet(s, mp, arr("Int", arr(ks, "Bool")), sto(pres, m.T, sto(sel2(pres, m.T), k.T, "false")))
}

func (e *Env) mapNew(s *State, mt types.Type) Value {
	m := mt.Underlying().(*types.Map)
	_, mp, _, ks := e.mapNames(m)
	r := e.allocRef(s, "map")
	pres := e.heapGet(s, mp, arr("Int", arr(ks, "Bool")))
	ml := e.heapGet(s, e.mlName(m), arr("Int", "Int"))
	// Unallocated references hold zero values in every heap map of the model (memory is
	// zero-initialised and nothing writes above the allocation counter), so a new map is
	// described by an assumption about the current maps rather than by a store: predicates over
	// whole map versions (opaque invariants) then survive the allocation.
	s.assume(eq(sel2(pres, r), "((as const "+arr(ks, "Bool")+") false)"))
	s.assume(eq(sel2(ml, r), "0"))
	return Value{T: r, Sort: "Int", GoT: mt}
}

// ---- strings ----

func (e *Env) strSub(s, lo, hi string) Value {
	t := app("ssub", s, lo, hi)
	e.ctx.axiom("(forall ((s Str) (a Int) (b Int)) (! (=> (and (<= 0 a) (<= a b) (<= b (slen s))) (= (slen (ssub s a b)) (- b a))) :pattern ((ssub s a b))))")
	e.ctx.axiom("(forall ((s Str) (a Int) (b Int) (i Int)) (! (=> (and (<= 0 a) (<= a b) (<= b (slen s)) (<= 0 i) (< i (- b a))) (= (sat (ssub s a b) i) (sat s (+ a i)))) :pattern ((sat (ssub s a b) i))))")
	return Value{T: t, Sort: "Str", GoT: types.Typ[types.String]}
}

func sortedNames(m map[string]bool) []string {
	var out []string
	for k := range m {
		out = append(out, k)
	}
	sort.Strings(out)
	return out
}
