package main

import (
	"bufio"
	"encoding/json"
	"flag"
	"fmt"
	"os"
	"os/exec"
	"path/filepath"
	"regexp"
	"sort"
	"strconv"
	"strings"
	"time"
)

type KnownFinding struct {
	Property   string `json:"property"`
	Obligation string `json:"obligation"`
	What       string `json:"what"`
	Replay     string `json:"replay,omitempty"`
	Status     string `json:"status"` // "open" or "fixed"
	Commit     string `json:"commit,omitempty"`
}

func loadKnownFindings() []KnownFinding {
	var out []KnownFinding
	f, err := os.Open(filepath.Join(verifDir, "known_findings.jsonl"))
	if err != nil {
		return nil
	}
	defer f.Close()
	sc := bufio.NewScanner(f)
	sc.Buffer(make([]byte, 1<<20), 1<<20)
	for sc.Scan() {
		line := strings.TrimSpace(sc.Text())
		if line == "" || strings.HasPrefix(line, "#") {
			continue
		}
		var k KnownFinding
		if json.Unmarshal([]byte(line), &k) == nil {
			out = append(out, k)
		}
	}
	return out
}

func loadBaseline(id string) map[string]bool {
	out := map[string]bool{}
	f, err := os.Open(filepath.Join(verifDir, "baseline", id+".txt"))
	if err != nil {
		return out
	}
	defer f.Close()
	sc := bufio.NewScanner(f)
	for sc.Scan() {
		l := strings.TrimSpace(sc.Text())
		if l != "" && !strings.HasPrefix(l, "#") {
			out[l] = true
		}
	}
	return out
}

func hasProp(props []string, id string) bool {
	for _, p := range props {
		if p == id {
			return true
		}
	}
	return false
}

// oblInProperty decides whether an obligation counts for property id.
func oblInProperty(o *Obligation, c *Contract, id string) bool {
	if len(o.Props) > 0 {
		return hasProp(o.Props, id)
	}
	return hasProp(c.Props, id)
}

func contractMentions(c *Contract, id string) bool {
	if hasProp(c.Props, id) {
		return true
	}
	for _, cl := range c.Ensures {
		if hasProp(cl.Props, id) {
			return true
		}
	}
	for _, ls := range c.Loops {
		for _, cl := range ls.Invariants {
			if hasProp(cl.Props, id) {
				return true
			}
		}
	}
	return false
}

type oblStatus struct {
	ID       string
	Func     string
	Kind     string
	Text     string
	Cover    bool
	OK       bool
	Status   string // worst status among instances
	Solver   string
	TimeS    float64
	Bytes    int
	Paths    int
	Output   string
	File     string
	Pos      string
	FailPath string
}

func cmdCheck(args []string) int {
	fs := flag.NewFlagSet("check", flag.ExitOnError)
	tier := fs.String("tier", os.Getenv("VERIF_TIER"), "quick|thorough")
	replay := fs.String("replay", "", "re-run a replay file")
	updateBaseline := fs.Bool("update-baseline", false, "rewrite baseline/<id>.txt from this run (maintenance only)")
	fs.Parse(reorderArgs(args))
	if fs.NArg() < 1 {
		fmt.Fprintln(os.Stderr, "usage: check <ID> [--tier quick|thorough] [--replay path]")
		return 2
	}
	id := fs.Arg(0)
	if *tier == "" {
		*tier = "quick"
	}
	if *replay != "" {
		return runReplayFile(id, *replay)
	}
	seed := 0
	if s := os.Getenv("VERIF_SEED"); s != "" {
		seed, _ = strconv.Atoi(s)
	}
	secs := 10
	if *tier == "thorough" {
		secs = 60
	}
	t0 := time.Now()
	p, err := loadAll()
	if err != nil {
		fmt.Printf("ERROR: cannot load /repo: %v\n", err)
		return 2
	}
	loadS := time.Since(t0).Seconds()
	sr := newSortReg()
	var keys []string
	for k, c := range p.contract {
		if c.Trusted || c.Iface {
			continue
		}
		if contractMentions(c, id) {
			keys = append(keys, k)
		}
	}
	sort.Strings(keys)
	workDir := filepath.Join(verifDir, ".work", id)
	os.RemoveAll(workDir)
	var all, infoObls []*Obligation
	var namesSeen map[string]map[string][]recName
	var unbound, contractErrs, unsupported, notes []string
	trusted := map[string]bool{}
	assumeSites := 0
	funcsUnder := []string{}
	globalNotes := checkGlobalsImmutable(p)
	for _, k := range keys {
		fn := p.funcs[k]
		if fn == nil {
			unbound = append(unbound, k+": function not found in /repo")
			continue
		}
		c := p.contract[k]
		v := newVerifier(p, sr, fn, c)
		res := v.run()
		if res.ContractErr != "" {
			contractErrs = append(contractErrs, k+": "+res.ContractErr)
			continue
		}
		if res.Unsupported != "" {
			unsupported = append(unsupported, k+": "+res.Unsupported)
			if strings.HasPrefix(res.Unsupported, "too many paths") {
				res.Obls = nil // see cmdVerify
			}
		}
		funcsUnder = append(funcsUnder, k)
		if *updateBaseline {
			if namesSeen == nil {
				namesSeen = map[string]map[string][]recName{}
			}
			namesSeen[k] = v.currentNames()
		}
		for _, o := range res.Obls {
			if o.Info {
				infoObls = append(infoObls, o)
				continue
			}
			if oblInProperty(o, c, id) || o.Cover {
				all = append(all, o)
			}
		}
		for _, n := range res.Notes {
			notes = append(notes, k+": "+n)
		}
		for _, t := range res.Trusted {
			trusted[t] = true
		}
		assumeSites += res.Assumes
	}
	// lemmas tagged with the property
	for _, l := range p.lemmas {
		if hasProp(l.Props, id) {
			if os, err := lemmaObligations(p, sr, l); err != nil {
				contractErrs = append(contractErrs, "lemma "+l.Name+": "+err.Error())
			} else {
				all = append(all, os...)
			}
		}
	}
	genS := time.Since(t0).Seconds() - loadS
	solveAll(all, workDir, secs, 16)
	// obligations recorded as open known findings are expected to fail: no second, longer attempt
	openKnown := map[string]bool{}
	for _, k := range loadKnownFindings() {
		if k.Status == "open" {
			openKnown[k.Obligation] = true
		}
	}
	var retry []*Obligation
	for _, o := range all {
		if !openKnown[o.ID] {
			retry = append(retry, o)
		}
	}
	if n := retryFailed(retry, workDir, secs); n > 0 {
		notes = append(notes, fmt.Sprintf("%d obligations discharged only on the second (sequential, longer limit) attempt", n))
	}
	// informational reachability of returns: reported, never part of the verdict
	solveAll(infoObls, filepath.Join(workDir, "info"), 2, 16)
	unreachable := 0
	retTotal, retDead := map[string]int{}, map[string]int{}
	for _, o := range infoObls {
		retTotal[o.Func]++
		if o.Result.Status == "unsat" {
			unreachable++
			retDead[o.Func]++
			notes = append(notes, fmt.Sprintf("%s: return at %s on path %s is unreachable under the contracts", o.Func, o.Pos, o.Path))
		}
	}
	// vacuity guard: a function none of whose returns is reachable under its contract and its
	// callees' contracts was verified against contradictory assumptions
	for f, n := range retTotal {
		if n > 0 && retDead[f] == n {
			contractErrs = append(contractErrs, f+": every return is unreachable under the contracts (vacuous verification)")
		}
	}
	// aggregate per obligation ID
	agg := map[string]*oblStatus{}
	var order []string
	solverTime := 0.0
	byBackend := map[string]int{}
	for _, o := range all {
		s := agg[o.ID]
		if s == nil {
			s = &oblStatus{ID: o.ID, Func: o.Func, Kind: o.Kind, Text: o.Text, Cover: o.Cover, OK: true, Status: "unsat"}
			if o.Cover {
				s.Status = "sat"
			}
			agg[o.ID] = s
			order = append(order, o.ID)
		}
		s.Paths++
		solverTime += o.Result.TimeS
		good := o.Result.Status == "unsat"
		if o.Cover {
			good = o.Result.Status != "unsat" // vacuity guard: fails only when the assumptions are contradictory
		}
		if good {
			byBackend[o.Result.Solver]++
			if s.OK {
				s.Solver, s.Bytes = o.Result.Solver, o.Result.Bytes
				if o.Result.TimeS > s.TimeS {
					s.TimeS = o.Result.TimeS
				}
			}
		} else if s.OK || (s.Status != "sat" && o.Result.Status == "sat") {
			s.OK = false
			s.Status, s.Solver, s.TimeS, s.Bytes = o.Result.Status, o.Result.Solver, o.Result.TimeS, o.Result.Bytes
			s.Output, s.File, s.Pos, s.FailPath = o.Result.Output, o.Result.File, o.Pos, o.Path
		}
	}
	known := loadKnownFindings()
	baseline := loadBaseline(id)
	baseSites := map[string]bool{} // baseline obligations with the call-site ordinal removed
	baseFuncs := map[string]bool{} // functions that have obligations in the baseline
	for b := range baseline {
		baseSites[stripSite(b)] = true
		if i := strings.Index(b, "/"); i > 0 {
			baseFuncs[b[:i]] = true
		}
	}
	if *updateBaseline && (len(contractErrs) > 0 || len(unbound) > 0 || len(unsupported) > 0) {
		// never re-baseline over a contract that no longer binds: that would silently drop its obligations
		for _, e := range contractErrs {
			fmt.Println("UNBOUND contract error:", e)
		}
		for _, e := range unbound {
			fmt.Println("UNBOUND", e)
		}
		for _, e := range unsupported {
			fmt.Println("UNSUPPORTED", e)
		}
		fmt.Printf("%s: baseline NOT updated (contract errors)\n", id)
		return 2
	}
	if *updateBaseline {
		// the names of locals as they are now (see applyRecordedNames)
		loadRecordedNames()
		for k, m := range namesSeen {
			recordedNames[k] = m
		}
		if nb, err := json.MarshalIndent(recordedNames, "", " "); err == nil {
			os.MkdirAll(filepath.Join(verifDir, "baseline"), 0o755)
			os.WriteFile(namesFile(), nb, 0o644)
		}
		var lines []string
		for _, oid := range order {
			if agg[oid].OK && !agg[oid].Cover {
				lines = append(lines, oid)
			}
		}
		sort.Strings(lines)
		os.MkdirAll(filepath.Join(verifDir, "baseline"), 0o755)
		os.WriteFile(filepath.Join(verifDir, "baseline", id+".txt"), []byte(strings.Join(lines, "\n")+"\n"), 0o644)
	}
	// verdicts
	violations := 0
	var violationLines, knownLines, undecided []string
	var knownHit []string
	discharged, total := 0, 0
	var samples []map[string]interface{}
	replayDir := filepath.Join(verifDir, "replays", id)
	for _, oid := range order {
		s := agg[oid]
		isKnown := false
		for _, k := range known {
			if k.Property == id && k.Status == "open" && k.Obligation == oid {
				isKnown = true
				if !s.OK {
					knownLines = append(knownLines, fmt.Sprintf("KNOWN-FINDING: property=%s %s [%s]", id, k.What, oid))
					knownHit = append(knownHit, oid)
				}
			}
		}
		if isKnown {
			if s.OK {
				// the recorded defect no longer fails: the entry is stale; report as information only
				notes = append(notes, "known finding "+oid+" now discharges (entry is stale)")
			}
			continue
		}
		total++
		if s.OK {
			discharged++
			if len(samples) < 6 {
				samples = append(samples, map[string]interface{}{"obligation": oid, "status": s.Status, "solver": s.Solver, "time_s": round3(s.TimeS), "smt_bytes": s.Bytes, "paths": s.Paths, "clause": trunc(s.Text, 160)})
			}
			continue
		}
		if s.Cover {
			// vacuous contract: the precondition (or an assumption) is unsatisfiable
			violations++
			rp := writeReplay(replayDir, s, id, "vacuous contract: cover obligation is not satisfiable")
			violationLines = append(violationLines, fmt.Sprintf("VIOLATION property=%s replay=%s obligation=%s (vacuous contract) no-failing-input-found", id, rp, oid))
			continue
		}
		inBase := baseline[oid]
		why := ""
		if !inBase {
			// (a) the ordinal of a call site (@N) moves when a call is added or removed before it: a precondition of the
			//     same callee that was discharged at its call sites in this function on the unchanged tree is the same obligation
			if n := stripSite(oid); n != oid && baseSites[n] {
				inBase, why = true, " (call site renumbered)"
			}
		}
		if !inBase && s.Status != "sat" {
			// (b) a function all of whose run-time-panic obligations were discharged on the unchanged tree was proved free of
			//     panics; a new panic site in it that cannot be proved safe breaks that (the implicit obligations of a partial
			//     contract are assumptions and stay undecided)
			if c := p.contract[s.Func]; c != nil && !c.Partial && strings.HasPrefix(s.Kind, "nopanic") && baseFuncs[s.Func] {
				inBase, why = true, " (new panic site in a function proved panic-free on the unchanged tree)"
			}
		}
		if s.Status == "sat" || inBase {
			violations++
			rp, confirmed := replayObligation(p, replayDir, s, id)
			suffix := " no-failing-input-found"
			if confirmed {
				suffix = ""
			}
			violationLines = append(violationLines, fmt.Sprintf("VIOLATION property=%s replay=%s obligation=%s status=%s%s%s", id, rp, oid, s.Status, why, suffix))
			samples = append(samples, map[string]interface{}{"obligation": oid, "status": s.Status, "solver": s.Solver, "clause": trunc(s.Text, 160), "replay": rp, "confirmed_on_real_code": confirmed})
		} else {
			undecided = append(undecided, fmt.Sprintf("%s (%s)", oid, s.Status))
			total--
		}
	}
	// missing explicit baseline obligations => the contracts no longer bind to the code
	var missing []string
	for b := range baseline {
		if _, ok := agg[b]; !ok && isExplicit(b) {
			missing = append(missing, b)
		}
	}
	sort.Strings(missing)
	// thorough tier: the recorded defects of this property are replayed on the real code. A repaired defect whose replay
	// reproduces again is a violation (the finding has returned); an open one is expected to reproduce.
	var replaysRun []map[string]interface{}
	if *tier == "thorough" {
		seen := map[string]bool{}
		for _, k := range known {
			if k.Property != id || !strings.HasSuffix(k.Replay, "_test.go") || seen[k.Replay] {
				continue
			}
			seen[k.Replay] = true
			rp := filepath.Join(verifDir, k.Replay)
			rep, out := runGoReplay(rp)
			replaysRun = append(replaysRun, map[string]interface{}{"replay": k.Replay, "status": k.Status, "reproduces": rep, "obligation": k.Obligation})
			if k.Status == "fixed" && rep {
				violations++
				os.MkdirAll(replayDir, 0o755)
				os.WriteFile(filepath.Join(replayDir, "returned_"+filepath.Base(k.Replay)+".txt"), []byte("obligation: "+k.Obligation+"\nreplay: "+rp+"\n\n"+out), 0o644)
				violationLines = append(violationLines, fmt.Sprintf("VIOLATION property=%s replay=%s obligation=%s (a repaired defect reproduces again on the real code)", id, rp, k.Obligation))
			}
			if k.Status == "open" && !rep {
				notes = append(notes, "replay "+k.Replay+" of the open finding "+k.Obligation+" no longer reproduces")
			}
		}
	}
	// A function whose contract no longer binds to its (rewritten) body: its postconditions, which were discharged on the
	// unchanged tree, can no longer be established. They are reported as violations (no failing input), next to the UNBOUND lines.
	for _, e := range contractErrs {
		fk := e
		if i := strings.Index(e, ": "); i >= 0 {
			fk = e[:i]
		}
		for _, b := range missing {
			if strings.HasPrefix(b, fk+"/post.") {
				violations++
				st := &oblStatus{ID: b, Func: fk, Kind: "post", Text: "(postcondition of a function whose contract no longer binds to its body)", Status: "unbound", Output: "contract error: " + e}
				rp := writeReplay(replayDir, st, id, "the contract of "+fk+" no longer binds to the function body ("+e+"); this postcondition was discharged on the unchanged tree and cannot be established now")
				violationLines = append(violationLines, fmt.Sprintf("VIOLATION property=%s replay=%s obligation=%s status=unbound no-failing-input-found", id, rp, b))
			}
		}
	}
	exit := 0
	for _, l := range knownLines {
		fmt.Println(l)
	}
	for _, l := range violationLines {
		fmt.Println(l)
	}
	if len(contractErrs) > 0 || len(unbound) > 0 || len(missing) > 0 {
		for _, e := range contractErrs {
			fmt.Println("UNBOUND contract error:", e)
		}
		for _, e := range unbound {
			fmt.Println("UNBOUND", e)
		}
		for _, e := range missing {
			fmt.Println("UNBOUND baseline obligation not regenerated:", e)
		}
		exit = 2
	}
	if total == 0 && exit == 0 && len(knownHit) == 0 {
		fmt.Printf("ERROR: no obligations generated for %s\n", id)
		exit = 2
	}
	if violations > 0 {
		exit = 1
	}
	for _, u := range undecided {
		fmt.Println("UNDECIDED (new obligation, no definite answer):", u)
	}
	for _, u := range unsupported {
		fmt.Println("PARTIAL (outside the supported subset after this point):", u)
	}
	wall := time.Since(t0).Seconds()
	fmt.Printf("%s: %d functions under contract, %d obligations, %d discharged, %d violations, %d known findings, %d undecided; load %.1fs gen %.1fs total %.1fs\n",
		id, len(funcsUnder), total, discharged, violations, len(knownHit), len(undecided), loadS, genS, wall)
	// evidence
	var tb []string
	for t := range trusted {
		tb = append(tb, t)
	}
	sort.Strings(tb)
	tb = append(tb, "govc SSA->SMT translation (DESIGN.md §2.3)", "SMT solvers z3 4.8.12 / z3 5.1.0 / cvc5 1.0 (unsat answers)", "go/ssa lowering of the Go tool chain (x/tools v0.29.0)")
	assumptions := []string{
		"machine integers are modelled exactly (wrap-around), not as mathematical integers",
		"package-level variables are not reassigned after init (checked syntactically: " + globalNotes + ")",
		"trusted stubs for library functions as listed in coverage.trusted_base",
		"heap type invariant: values read from memory are well-formed for their Go type",
	}
	for _, a := range p.axioms {
		if a.Induct != "" {
			if hasProp(a.Props, id) {
				continue // proved in this very check (lemma.<name>.base/.step/.neg)
			}
			assumptions = append(assumptions, "lemma "+a.Name+" (proved by induction under the checks of "+strings.Join(a.Props, " ")+"): "+a.Text)
			continue
		}
		assumptions = append(assumptions, "axiom "+a.Name+": "+a.Text)
	}
	sort.Strings(notes)
	notes = dedupe(notes)
	for _, n := range notes {
		if strings.Contains(n, "assume ") || strings.Contains(n, "havoc") || strings.Contains(n, "goroutine") || strings.Contains(n, "channel") {
			assumptions = append(assumptions, n)
		}
	}
	if extra := propertyAssumptions[id]; len(extra) > 0 {
		assumptions = append(assumptions, extra...)
	}
	ev := map[string]interface{}{
		"property_id": id,
		"tier":        *tier,
		"seed":        seed,
		"level":       "proof",
		"coverage": map[string]interface{}{
			"obligations":              total,
			"discharged":               discharged,
			"checker_cmd":              fmt.Sprintf("./check %s --tier %s  (govc: go/ssa symbolic execution against contracts in /repo/*/verif_contracts.go; z3 4.8.12, z3 5.1.0, cvc5 1.0 raced per obligation, %ds limit)", id, *tier, secs),
			"trusted_base":             tb,
			"functions_under_contract": funcsUnder,
			"by_backend":               byBackend,
			"solver_time_s":            round3(solverTime),
			"smt_queries":              len(all),
			"evaluations":              len(all),
			"distinct_nontrivial":      total,
			"rule":                     "one SMT query per obligation instance (obligation x path); distinct = distinct obligation identifiers; an obligation counts as discharged only if every path instance is unsat (covers: sat)",
			"samples":                  samples,
			"known_findings":           knownHit,
			"replays_run":              replaysRun,
			"undecided_new":            undecided,
			"unsupported":              unsupported,
			"assume_sites":             assumeSites,
			"return_paths":             len(infoObls),
			"return_paths_unreachable": unreachable,
			"notes":                    notes,
			"source_hash":              p.srcHash,
			"contract_files":           relFiles(p.files),
		},
		"assumptions": assumptions,
		"wall_s":      round3(wall),
		"violations":  violations,
	}
	os.MkdirAll(filepath.Join(verifDir, "evidence"), 0o755)
	buf, _ := json.MarshalIndent(ev, "", " ")
	os.WriteFile(filepath.Join(verifDir, "evidence", id+".json"), buf, 0o644)
	// the SMT files of a clean run are of no further use (several GB for the large checks); they are kept when
	// something failed (the replay files name them) or when GOVC_KEEP_WORK is set
	if exit == 0 && len(undecided) == 0 && len(knownHit) == 0 && os.Getenv("GOVC_KEEP_WORK") == "" {
		os.RemoveAll(workDir)
	}
	return exit
}

var propertyAssumptions = map[string][]string{}

func relFiles(fs []string) []string {
	var out []string
	for _, f := range fs {
		out = append(out, f)
	}
	return out
}

func dedupe(xs []string) []string {
	var out []string
	seen := map[string]bool{}
	for _, x := range xs {
		if !seen[x] {
			seen[x] = true
			out = append(out, x)
		}
	}
	return out
}

func round3(f float64) float64 { return float64(int(f*1000+0.5)) / 1000 }

// reorderArgs moves flags before positional args so "check C01 --tier quick" works.
func reorderArgs(args []string) []string {
	var flags, pos []string
	for i := 0; i < len(args); i++ {
		a := args[i]
		if strings.HasPrefix(a, "-") {
			flags = append(flags, a)
			if (a == "--tier" || a == "-tier" || a == "--replay" || a == "-replay") && i+1 < len(args) {
				flags = append(flags, args[i+1])
				i++
			}
		} else {
			pos = append(pos, a)
		}
	}
	return append(flags, pos...)
}

func isExplicit(oid string) bool {
	i := strings.Index(oid, "/")
	if i < 0 {
		return false
	}
	k := oid[i+1:]
	if strings.Contains(k, ".auto") {
		return false // automatic range invariants of loop-carried variables come and go with the code
	}
	for _, p := range []string{"post.", "inv.", "dec.", "lemma.", "ghost.", "exit."} {
		if strings.HasPrefix(k, p) {
			return true
		}
	}
	return false
}

// writeReplay writes a replay record naming the failed obligation and carrying the solver output.
func writeReplay(dir string, s *oblStatus, id, why string) string {
	os.MkdirAll(dir, 0o755)
	path := filepath.Join(dir, safeName(s.ID)+".txt")
	var b strings.Builder
	fmt.Fprintf(&b, "property: %s\nobligation: %s\nkind: %s\nclause: %s\nposition: %s\npath: %s\nsolver: %s\nstatus: %s\nreason: %s\nsmt_file: %s\n\nsolver output:\n%s\n", id, s.ID, s.Kind, s.Text, s.Pos, s.FailPath, s.Solver, s.Status, why, s.File, trunc(s.Output, 20000))
	os.WriteFile(path, []byte(b.String()), 0o644)
	return path
}

// checkGlobalsImmutable verifies syntactically that no function other than package
// initialisers stores to a package-level variable of the mkdb packages.
func checkGlobalsImmutable(p *Program) string {
	n := 0
	var bad []string
	for k, fn := range p.funcs {
		if fn.Pkg == nil || !strings.Contains(fn.Pkg.Pkg.Path(), "mk6i/mkdb") {
			continue
		}
		if fn.Name() == "init" || strings.HasPrefix(fn.Name(), "init#") {
			continue
		}
		n++
		for _, b := range fn.Blocks {
			for _, in := range b.Instrs {
				if s := storeToGlobal(in); s != "" {
					bad = append(bad, k+" writes "+s)
				}
			}
		}
	}
	if len(bad) > 0 {
		sort.Strings(bad)
		return fmt.Sprintf("VIOLATED by %v", bad)
	}
	return fmt.Sprintf("holds for %d functions", n)
}

func runReplayFile(id, path string) int {
	if strings.HasSuffix(path, "_test.go") {
		ok, out := runGoReplay(path)
		fmt.Println(out)
		if ok {
			fmt.Printf("VIOLATION property=%s replay=%s (replay reproduces)\n", id, path)
			return 1
		}
		return 0
	}
	b, err := os.ReadFile(path)
	if err != nil {
		fmt.Println("cannot read replay:", err)
		return 2
	}
	fmt.Println(string(b))
	// a text replay names the obligation; re-run the check to see whether it still fails
	return cmdCheck([]string{id})
}

// runGoReplay runs an in-package replay test against the real code through go test -overlay.
// The first line of the file must be "//replay pkg=<dir relative to repo> run=<TestName>".
// The test must FAIL (exit status != 0 with "REPRODUCED" in the output) when the defect is present.
func runGoReplay(path string) (reproduced bool, output string) {
	data, err := os.ReadFile(path)
	if err != nil {
		return false, err.Error()
	}
	first := strings.SplitN(string(data), "\n", 2)[0]
	var pkg, run string
	race := false
	for _, f := range strings.Fields(first) {
		if strings.HasPrefix(f, "pkg=") {
			pkg = f[4:]
		}
		if strings.HasPrefix(f, "run=") {
			run = f[4:]
		}
		if f == "race=1" {
			race = true
		}
	}
	if pkg == "" || run == "" {
		return false, "replay file lacks //replay header"
	}
	tmp, err := os.MkdirTemp(filepath.Join(verifDir, ".work"), "replay")
	if err != nil {
		os.MkdirAll(filepath.Join(verifDir, ".work"), 0o755)
		tmp, _ = os.MkdirTemp(filepath.Join(verifDir, ".work"), "replay")
	}
	defer os.RemoveAll(tmp)
	target := filepath.Join(repoDir, pkg, "zz_verif_replay_test.go")
	ov := map[string]map[string]string{"Replace": {target: path}}
	ovb, _ := json.Marshal(ov)
	ovf := filepath.Join(tmp, "overlay.json")
	os.WriteFile(ovf, ovb, 0o644)
	args := []string{"test", "-overlay", ovf, "-vet=off", "-count=1", "-timeout", "120s", "-run", "^" + run + "$"}
	if race {
		// a data race is the failing observation: the race detector's report makes the test fail
		args = append(args, "-race")
	}
	cmd := exec.Command("go", append(args, "./"+pkg)...)
	cmd.Dir = repoDir
	cmd.Env = append(os.Environ(), "GOFLAGS=-mod=mod", "GOPROXY=off", "GOSUMDB=off", "GOTOOLCHAIN=local")
	out, _ := cmd.CombinedOutput()
	s := string(out)
	return strings.Contains(s, "REPRODUCED") || (race && strings.Contains(s, "WARNING: DATA RACE")), trunc(s, 6000)
}

var siteSuffix = regexp.MustCompile(`@\d+$`)

// stripSite removes the call-site ordinal of a precondition obligation (pre.<callee>.<label>@N).
func stripSite(oid string) string { return siteSuffix.ReplaceAllString(oid, "@") }
