package main

import (
	"fmt"
	"go/types"

	"golang.org/x/tools/go/ssa"
)

func storeToGlobal(in ssa.Instruction) string {
	st, ok := in.(*ssa.Store)
	if !ok {
		return ""
	}
	if g, ok := st.Addr.(*ssa.Global); ok {
		return g.Name()
	}
	return ""
}

// lemmaObligation turns a closed lemma over spec functions into one obligation.
func lemmaObligation(p *Program, sr *SortReg, l *Lemma) (o *Obligation, err error) {
	defer func() {
		if r := recover(); r != nil {
			if se, ok := r.(specErr); ok {
				err = fmt.Errorf("%s", se.msg)
				return
			}
			panic(r)
		}
	}()
	ctx := newCtx(sr)
	env := &Env{ctx: ctx, sr: sr, prog: p, init: map[string]string{}}
	st := &State{heap: map[string]string{}, hsort: map[string]string{}, regs: map[ssa.Value]Value{}}
	st.alloc = ctx.declConst("alloc!0", "Int")
	qn := 0
	se := &SpecEnv{e: env, s: st, old: st, vars: map[string]Value{}, pkg: l.Pkg, qn: &qn}
	goal := se.evalBool(l.E)
	return &Obligation{Func: l.Pkg + ".lemma", Kind: "lemma", Label: l.Name, ID: l.Pkg + "/lemma." + l.Name, Props: l.Props, PC: st.pc, Goal: goal, Text: l.Text, ctx: ctx}, nil
}

// replayObligation writes the replay record of a failed obligation and, where a replay generator
// exists for the function, runs the counterexample against the real code.
func replayObligation(p *Program, dir string, s *oblStatus, id string) (path string, confirmed bool) {
	if rp, ok := tryGeneratedReplay(p, dir, s, id); ok {
		return rp, true
	}
	return writeReplay(dir, s, id, "obligation failed; no concrete failing input was reproduced on the real code"), false
}

var _ = types.Typ
