package main

import (
	"fmt"
	"go/types"

	"golang.org/x/tools/go/ssa"
)

func storeToGlobal(in ssa.Instruction) string {
	st, ok := in.(*ssa.Store)
	if !ok {
		return ""
	}
	if g, ok := st.Addr.(*ssa.Global); ok {
		return g.Name()
	}
	return ""
}

// lemmaObligations turns a closed lemma over spec functions into proof obligations: one for a plain
// lemma; base case, induction step and negative range for a lemma "by induction on v". The declared
// axioms (not the lemmas that are themselves proved by induction) are available as hypotheses.
func lemmaObligations(p *Program, sr *SortReg, l *Lemma) (obls []*Obligation, err error) {
	defer func() {
		if r := recover(); r != nil {
			if se, ok := r.(specErr); ok {
				err = fmt.Errorf("%s", se.msg)
				return
			}
			panic(r)
		}
	}()
	mk := func(suffix string, build func(se *SpecEnv, st *State) string) {
		ctx := newCtx(sr)
		env := &Env{ctx: ctx, sr: sr, prog: p, init: map[string]string{}}
		st := &State{heap: map[string]string{}, hsort: map[string]string{}, regs: map[ssa.Value]Value{}}
		st.alloc = ctx.declConst("alloc!0", "Int")
		qn := 0
		se := &SpecEnv{e: env, s: st, old: st, vars: map[string]Value{}, pkg: l.Pkg, qn: &qn}
		for _, a := range p.axioms {
			if a.Induct != "" {
				continue
			}
			ae := &SpecEnv{e: env, s: st, old: nil, vars: map[string]Value{}, pkg: a.Pkg, qn: &qn}
			f := ae.evalBool(a.E)
			if ctx.specAxioms == nil {
				ctx.specAxioms = map[string]bool{}
			}
			ctx.specAxioms[f] = true
			st.assume(f)
		}
		goal := build(se, st)
		name := l.Name
		if suffix != "" {
			name += "." + suffix
		}
		obls = append(obls, &Obligation{Func: l.Pkg + ".lemma", Kind: "lemma", Label: name, ID: l.Pkg + "/lemma." + name, Props: l.Props, PC: st.pc, Goal: goal, Text: l.Text, ctx: ctx})
	}
	if l.Induct == "" {
		mk("", func(se *SpecEnv, st *State) string { return se.evalBool(l.E) })
		return obls, nil
	}
	q, ok := l.E.(*EQuant)
	if !ok || !q.Forall {
		return nil, fmt.Errorf("induction needs a universally quantified lemma")
	}
	var others []QVar
	found := false
	for _, qv := range q.Vars {
		if qv.Name == l.Induct {
			found = true
			if qv.T.Kind != "name" || qv.T.Name != "int" {
				return nil, fmt.Errorf("induction variable %s must have type int", l.Induct)
			}
		} else {
			others = append(others, qv)
		}
	}
	if !found {
		return nil, fmt.Errorf("induction variable %s is not bound by the lemma", l.Induct)
	}
	var inner Expr = q.Body
	if len(others) > 0 {
		inner = &EQuant{Forall: true, Vars: others, Body: q.Body}
	}
	intV := func(t string) Value { return Value{T: t, Sort: "Int", GoT: types.Typ[types.Int]} }
	with := func(se *SpecEnv, t string) *SpecEnv {
		return se.with(map[string]Value{l.Induct: intV(t)})
	}
	mk("base", func(se *SpecEnv, st *State) string { return with(se, "0").evalBool(inner) })
	mk("step", func(se *SpecEnv, st *State) string {
		k := se.e.ctx.freshConst("ind.k", "Int")
		st.assume("(>= " + k + " 0)")
		st.assume(with(se, k).evalBool(inner)) // induction hypothesis, for all values of the other variables
		return with(se, "(+ "+k+" 1)").evalBool(inner)
	})
	mk("neg", func(se *SpecEnv, st *State) string {
		k := se.e.ctx.freshConst("ind.k", "Int")
		st.assume("(< " + k + " 0)")
		return with(se, k).evalBool(inner)
	})
	return obls, nil
}

// replayObligation writes the replay record of a failed obligation and, where a replay generator
// exists for the function, runs the counterexample against the real code.
func replayObligation(p *Program, dir string, s *oblStatus, id string) (path string, confirmed bool) {
	if rp, ok := tryGeneratedReplay(p, dir, s, id); ok {
		return rp, true
	}
	return writeReplay(dir, s, id, "obligation failed; no concrete failing input was reproduced on the real code"), false
}

var _ = types.Typ
