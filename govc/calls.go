package main

import (
	"fmt"
	"go/constant"
	"go/token"
	"go/types"
	"strings"

	"golang.org/x/tools/go/ssa"
)

// calleeKey resolves the contract key of a call.
func (v *Verifier) calleeKey(c *ssa.CallCommon) (key string, fn *ssa.Function) {
	if c.IsInvoke() {
		t := c.Value.Type()
		name := typeName(t)
		pk := ""
		if n, ok := t.(*types.Named); ok {
			name = n.Obj().Name()
			if n.Obj().Pkg() != nil {
				pk = shortPkg(n.Obj().Pkg().Path())
			} else {
				pk = "builtin"
			}
		}
		return fmt.Sprintf("%s.(%s).%s", pk, name, c.Method.Name()), nil
	}
	if f := c.StaticCallee(); f != nil {
		return funcKey(f), f
	}
	return "", nil
}

// paramNames returns the callee's parameter names (receiver first).
func (v *Verifier) paramNames(c *ssa.CallCommon, fn *ssa.Function, ct *Contract) []string {
	var names []string
	if fn != nil && len(fn.Params) > 0 {
		for _, p := range fn.Params {
			names = append(names, p.Name())
		}
		return names
	}
	sig := c.Signature()
	if c.IsInvoke() {
		rn := "recv"
		if ct != nil && ct.RecvName != "" {
			rn = ct.RecvName
		}
		names = append(names, rn)
	} else if sig.Recv() != nil {
		names = append(names, sig.Recv().Name())
	}
	for i := 0; i < sig.Params().Len(); i++ {
		n := sig.Params().At(i).Name()
		if n == "" {
			n = fmt.Sprintf("arg%d", i)
		}
		names = append(names, n)
	}
	return names
}

func (v *Verifier) doCall(st *State, in ssa.Instruction, c *ssa.CallCommon) Value {
	resT := c.Signature().Results()
	var retT types.Type
	switch resT.Len() {
	case 0:
		retT = nil
	case 1:
		retT = resT.At(0).Type()
	default:
		retT = resT
	}
	if b, ok := c.Value.(*ssa.Builtin); ok {
		return v.builtin(st, in, b, c)
	}
	var args []Value
	if c.IsInvoke() {
		recv := v.operand(st, c.Value)
		v.checkSite(st, in, "call", not(eq(recv.T, "VNil")), "method call on nil interface value")
		args = append(args, recv)
	}
	for _, a := range c.Args {
		args = append(args, v.operand(st, a))
	}
	key, fn := v.calleeKey(c)
	if mc, ok := c.Value.(*ssa.MakeClosure); ok && !c.IsInvoke() {
		// direct call of a closure value: bind its free variables
		fv := v.operand(st, mc)
		if ci, ok := v.closures[fv.T]; ok {
			return v.callClosure(st, in, ci, args, retT)
		}
	}
	if key == "" && v.contract != nil && v.contract.Callbacks != nil {
		if prm, ok := c.Value.(*ssa.Parameter); ok {
			if cb := v.contract.Callbacks[prm.Name()]; cb != nil {
				return v.callCallbackParam(st, in, cb, prm.Name(), args, retT)
			}
		}
	}
	if key == "" {
		// dynamic call of a function value
		fv := v.operand(st, c.Value)
		if ci, ok := v.closures[fv.T]; ok {
			return v.callClosure(st, in, ci, args, retT)
		}
		if !c.IsInvoke() {
			v.checkSite(st, in, "call", not(eq(fv.T, "0")), "call of nil function value")
		}
		return v.havocCall(st, in, "dynamic call", retT)
	}
	if fn != nil && fn.Signature.Recv() != nil && len(args) > 0 {
		if _, ok := fn.Signature.Recv().Type().Underlying().(*types.Pointer); ok && args[0].Addr == nil && args[0].Sort == "Int" {
			v.checkNonNil(st, in, args[0])
		}
	}
	if nat, ok := nativeStubs[key]; ok {
		v.trustedUsed["stub:"+key] = true
		return nat(v, st, in, c, args, retT)
	}
	ct := v.prog.contract[key]
	if ct == nil {
		if fn != nil && fn.Parent() != nil {
			// closure called directly
			return v.havocCall(st, in, "closure "+key+" without contract", retT)
		}
		return v.havocCall(st, in, "callee "+key+" without contract", retT)
	}
	if ct.Delegate != nil && c.IsInvoke() {
		// the interface method is specified by the method of one concrete implementation: the
		// dynamic type of the receiver must be that implementation (obligation), then its contract applies
		se := &SpecEnv{e: v.env, s: st, vars: map[string]Value{}, pkg: ct.Pkg, qn: &v.qn}
		dt := se.resolveType(ct.Delegate)
		v.emit(st, "pre", "dyn."+c.Method.Name()+"@"+v.siteLabel(in), v.env.valIsType(args[0], dt), v.contractProps(), "receiver of "+key+" is a "+typeName(dt), in)
		st.assume(v.env.valIsType(args[0], dt))
		recv := v.env.valPayload(args[0], dt)
		recv.GoT = dt
		nargs := append([]Value{recv}, args[1:]...)
		star, tn := "", typeName(dt)
		if p, ok := dt.(*types.Pointer); ok {
			star = "*"
			if n, ok := p.Elem().(*types.Named); ok {
				tn = n.Obj().Name()
			}
		} else if n, ok := dt.(*types.Named); ok {
			tn = n.Obj().Name()
		}
		dkey := fmt.Sprintf("%s.(%s%s).%s", ct.Pkg, star, tn, c.Method.Name())
		dct := v.prog.contract[dkey]
		dfn := v.prog.funcs[dkey]
		if dct == nil || dfn == nil {
			return v.havocCall(st, in, "delegate "+dkey+" without contract", retT)
		}
		if dct.Trusted {
			v.trustedUsed["trusted:"+dkey] = true
		}
		var names []string
		for _, p := range dfn.Params {
			names = append(names, p.Name())
		}
		v.checkNonNil(st, in, recv)
		return v.applyContract(st, in, dkey, dct, names, nargs, retT, nil)
	}
	if ct.Trusted {
		v.trustedUsed["trusted:"+key] = true
	}
	return v.applyContract(st, in, key, ct, v.paramNames(c, fn, ct), args, retT, nil)
}

func (v *Verifier) contractProps() []string {
	if v.contract != nil {
		return v.contract.Props
	}
	return nil
}

// callCallbackParam: inside a higher-order function, a call of its callback parameter. The
// function must establish what it guarantees about the arguments; the callback may change every
// heap map except the preserved ones.
func (v *Verifier) callCallbackParam(st *State, in ssa.Instruction, cb *CallbackSpec, name string, args []Value, retT types.Type) Value {
	vars := v.baseVars(st)
	for i, an := range cb.ArgNames {
		if i < len(args) {
			vars[an] = args[i]
		}
	}
	se := v.specEnv(st, vars)
	// witnesses for existential guarantees: locals at the call, "curindex" = index of the innermost
	// range loop's current element
	locals := map[string]Value{}
	v.localVarsAll(st, in.Block(), locals)
	for _, b := range v.fn.Blocks {
		if !(b == in.Block() || b.Dominates(in.Block())) {
			continue
		}
		for _, ins := range b.Instrs {
			if bo, ok := ins.(*ssa.BinOp); ok && bo.Op == token.ADD {
				if ph, ok := bo.X.(*ssa.Phi); ok && ph.Comment == "rangeindex" {
					if val, ok := st.regs[bo]; ok {
						locals["curindex"] = val // later (more deeply nested) loops overwrite earlier ones
					}
				}
			}
		}
	}
	for i, g := range cb.Guarantees {
		se.witness = nil
		if len(g.Witness) > 0 {
			se.witness = map[string]Value{}
			for qv, local := range g.Witness {
				if lv, ok := locals[local]; ok {
					se.witness[qv] = lv
				}
			}
		}
		v.emit(st, "callback.guarantee", fmt.Sprintf("%s.%d@%s", name, i+1, v.siteLabel(in)), se.evalBool(g.E), g.Props, "guaranteed to the callback: "+g.Text, in)
	}
	se.witness = nil
	// own writes so far must respect the modifies clause; the callback's effects are charged to
	// the closure at the caller's call site, so the frame is measured afresh afterwards
	for _, f := range v.frameFormulas(st, true) {
		v.emit(st, "frame.precb", mangle(f.name)+"@"+v.siteLabel(in), f.formula, nil, "writes to "+f.name+" before the callback stay inside the modifies clause (or fresh objects)", in)
	}
	keep := v.callbackKeep(st, cb)
	uw := st.unknownWrites
	v.havocAllExcept(st, keep)
	st.unknownWrites = uw
	// marks: the ghost flag of the argument records that the callback was called for it
	for _, mk := range cb.Marks {
		call, ok := mk.(*ECall)
		if !ok || len(call.Args) != 1 {
			v.unsupportedf("callback marks needs g(arg)")
		}
		id, ok := call.Fn.(*EIdent)
		if !ok {
			v.unsupportedf("callback marks needs g(arg)")
		}
		g := v.prog.ghosts[id.Name]
		if g == nil || g.Key == nil || g.Key2 != nil {
			v.unsupportedf("callback marks: %s is not a per-object ghost variable", id.Name)
		}
		obj := v.specEnv(st, vars).eval(call.Args[0])
		name := "G!" + g.Name
		srt := arr("Int", "Bool")
		v.env.heapSet(st, name, srt, sto(v.env.heapGet(st, name, srt), obj.T, "true"))
	}
	v.frameCheckpoint(st)
	if retT == nil {
		return Value{}
	}
	r := v.freshValue(st, "ret.callback", retT)
	v.assumeTypeFacts(st, r)
	return r
}

// havocCall models a call whose callee has no contract: everything may change, the result is
// arbitrary (sound over-approximation).
func (v *Verifier) havocCall(st *State, in ssa.Instruction, why string, retT types.Type) Value {
	v.notes = append(v.notes, fmt.Sprintf("%s at %s: modelled as havoc of the whole heap", why, v.posOf(in)))
	v.havocAll(st)
	if retT == nil {
		return Value{}
	}
	r := v.freshValue(st, "ret", retT)
	v.assumeTypeFacts(st, r)
	return r
}

func (v *Verifier) assumeTypeFacts(st *State, r Value) {
	if r.Tuple != nil {
		for _, x := range r.Tuple {
			v.assumeTypeFacts(st, x)
		}
		return
	}
	if f := v.env.typeFacts(st, r); f != "true" {
		st.assume(f)
	}
}

// applyContract: assert requires, havoc modifies, assume ensures.
func (v *Verifier) applyContract(st *State, in ssa.Instruction, key string, ct *Contract, pnames []string, args []Value, retT types.Type, extraVars map[string]Value) Value {
	vars := map[string]Value{}
	for i, n := range pnames {
		if i < len(args) {
			vars[n] = args[i]
			if args[i].Addr != nil {
				vars["&"+n] = args[i]
			}
		}
	}
	for k, val := range extraVars {
		vars[k] = val
	}
	short := key
	if i := strings.Index(key, "."); i >= 0 {
		short = key[i+1:]
	}
	se := &SpecEnv{e: v.env, s: st, old: nil, vars: vars, pkg: ct.Pkg, qn: &v.qn}
	for _, r := range ct.Requires {
		if v.contract != nil && v.contract.AssumePre != nil {
			if why, ok := v.contract.AssumePre[short+"."+r.Label]; ok {
				v.noteOnce("assume precondition " + r.Label + " of " + short + " at its call sites in " + v.key + " (assumepre): " + why)
				v.assumeCount++
				st.assume(se.evalBool(r.E))
				continue
			}
		}
		if v.contract != nil && v.contract.WaivePre != nil {
			if why, ok := v.contract.WaivePre[short+"."+r.Label]; ok {
				v.noteOnce("assume (waived, neither proved nor added to the state) precondition " + r.Label + " of " + short + " at its call sites in " + v.key + " (waivepre): " + why)
				v.assumeCount++
				continue
			}
		}
		v.emit(st, "pre", short+"."+r.Label+"@"+v.siteLabel(in), se.evalBool(r.E), r.Props, "requires "+r.Text, in)
		st.assume(se.evalBool(r.E))
	}
	// termination: a call from a function with a measure to a function with a measure must decrease it
	if v.measure0 != "" && ct.Decreases != nil && v.contract != nil {
		mc := se.eval(ct.Decreases.E).T
		v.emit(st, "dec.call", short+"@"+v.siteLabel(in), and("(>= "+mc+" 0)", "(< "+mc+" "+v.measure0+")"), v.contract.Props, "call decreases the termination measure: "+ct.Decreases.Text, in)
	}
	pre := st.snapshot()
	// havoc the modifies set
	preEnv := &SpecEnv{e: v.env, s: pre, old: pre, vars: vars, pkg: ct.Pkg, qn: &v.qn}
	sets, sorts, everything := v.modSets(ct, preEnv)
	// callbacks: the callee may call the closure any number of times
	var cbAfter []func()
	for pname, cb := range ct.Callbacks {
		idx := -1
		for i, n := range pnames {
			if n == pname {
				idx = i
			}
		}
		if idx < 0 || idx >= len(args) {
			continue
		}
		ci := v.closures[args[idx].T]
		var cct *Contract
		if ci != nil {
			cct = v.prog.contract[funcKey(ci.fn)]
		}
		if ci == nil || cct == nil {
			v.notes = append(v.notes, fmt.Sprintf("callback argument of %s at %s has no contract: whole heap havocked", key, v.posOf(in)))
			everything = true
			continue
		}
		// closure environment: free variables bound to the captured cells
		cvars := func(s *State) map[string]Value {
			m := map[string]Value{}
			for k, fv := range ci.fn.FreeVars {
				if k < len(ci.bindings) {
					b := ci.bindings[k]
					if b.Addr != nil {
						m["&"+fv.Name()] = b
						m[fv.Name()] = v.loadAddr(s, b, in)
					} else {
						m[fv.Name()] = b
					}
				}
			}
			return m
		}
		cshort := ci.fn.Name()
		// 1. the closure invariant holds now
		seC := &SpecEnv{e: v.env, s: st, old: pre, vars: cvars(st), oldVars: cvars(pre), pkg: cct.Pkg, qn: &v.qn}
		for _, inv := range cct.Invariants {
			v.emit(st, "pre", "callback.inv."+cshort+"."+inv.Label+"@"+v.siteLabel(in), seC.evalBool(inv.E), v.contractProps(), "closure invariant holds before the call: "+inv.Text, in)
		}
		// 2. the closure leaves the preserved maps alone
		cpre := &SpecEnv{e: v.env, s: pre, old: pre, vars: cvars(pre), pkg: cct.Pkg, qn: &v.qn}
		for i, p := range ci.fn.Params {
			cpre.vars[p.Name()] = v.freshValue(st, "cbarg."+p.Name(), p.Type())
			_ = i
		}
		csets, csorts, cevery := v.modSets(cct, cpre)
		keepC := &Contract{Modifies: cb.Preserves, Pkg: ct.Pkg}
		ksets, _, _ := v.modSets(keepC, preEnv)
		bad := cevery
		for n := range csets {
			if _, ok := ksets[n]; ok {
				bad = true
			}
		}
		if bad {
			v.emit(st, "pre", "callback.preserves."+cshort+"@"+v.siteLabel(in), "false", v.contractProps(), "the closure may modify state that "+key+" requires its callback to preserve", in)
		}
		// 3. in any state the callee may be in when it calls back (its own and the closure's
		//    modifies havocked, invariant and guarantee assumed) the closure's precondition holds
		s2 := st.clone()
		v.havocSets(s2, sets, sorts)
		v.havocSets(s2, csets, csorts)
		na := v.env.ctx.freshConst("alloc", "Int")
		s2.assume("(>= " + na + " " + s2.alloc + ")")
		s2.alloc = na
		cv2 := cvars(s2)
		gvars := map[string]Value{}
		for k, val := range vars {
			gvars[k] = val
		}
		for i, p := range ci.fn.Params {
			av := v.freshValue(s2, "cbarg."+p.Name(), p.Type())
			v.assumeTypeFacts(s2, av)
			cv2[p.Name()] = av
			if i < len(cb.ArgNames) {
				gvars[cb.ArgNames[i]] = av
			}
		}
		seG := &SpecEnv{e: v.env, s: s2, old: pre, vars: gvars, pkg: ct.Pkg, qn: &v.qn}
		for _, g := range cb.Guarantees {
			s2.assume(seG.evalBool(g.E))
		}
		se2 := &SpecEnv{e: v.env, s: s2, old: pre, vars: cv2, oldVars: cvars(pre), pkg: cct.Pkg, qn: &v.qn}
		for _, inv := range cct.Invariants {
			s2.assume(se2.evalBool(inv.E))
		}
		for _, r := range cct.Requires {
			v.emit(s2, "pre", "callback.req."+cshort+"."+r.Label+"@"+v.siteLabel(in), se2.evalBool(r.E), v.contractProps(), "closure precondition at every callback: "+r.Text, in)
		}
		// 4. effect on the caller's state: the closure's modifies are havocked too, its invariant holds afterwards
		for n, objs := range csets {
			sets[n] = append(sets[n], objs...)
			sorts[n] = csorts[n]
		}
		cbAfter = append(cbAfter, func() {
			seA := &SpecEnv{e: v.env, s: st, old: pre, vars: cvars(st), oldVars: cvars(pre), pkg: cct.Pkg, qn: &v.qn}
			for _, inv := range cct.Invariants {
				st.assume(seA.evalBool(inv.E))
			}
		})
	}
	if !ct.Pure {
		// history ghosts may be changed by any call
		for _, g := range v.prog.ghosts {
			if g.History && g.Key != nil && g.Key2 == nil {
				name := "G!" + g.Name
				if srt := st.hsort[name]; srt != "" {
					v.env.heapHavoc(st, name, srt)
				}
			}
		}
	}
	if everything {
		v.havocAll(st)
	} else {
		v.havocSets(st, sets, sorts)
		if !ct.Pure {
			na := v.env.ctx.freshConst("alloc", "Int")
			st.assume("(>= " + na + " " + st.alloc + ")")
			st.alloc = na
		}
	}
	// results
	var ret Value
	if retT != nil {
		ret = v.freshValue(st, "ret."+short, retT)
		v.assumeTypeFacts(st, ret)
		var results []Value
		if ret.Tuple != nil {
			results = ret.Tuple
		} else {
			results = []Value{ret}
		}
		for i, r := range results {
			vars[fmt.Sprintf("result%d", i)] = r
			if tup, ok := retT.(*types.Tuple); ok {
				if n := tup.At(i).Name(); n != "" && n != "_" {
					if _, clash := vars[n]; !clash {
						vars[n] = r
					}
				}
				if i == len(results)-1 && isErrorType(tup.At(i).Type()) {
					vars["err"] = r
				}
			} else if isErrorType(retT) {
				vars["err"] = r
			}
		}
		vars["result"] = results[0]
		// named single result
		if fn := v.prog.funcs[key]; fn != nil && fn.Signature.Results().Len() == len(results) {
			for i := range results {
				if n := fn.Signature.Results().At(i).Name(); n != "" && n != "_" {
					if _, clash := vars[n]; !clash {
						vars[n] = results[i]
					}
				}
			}
		}
	}
	post := &SpecEnv{e: v.env, s: st, old: pre, vars: vars, pkg: ct.Pkg, qn: &v.qn}
	for _, en := range ct.Ensures {
		st.assume(post.evalBool(en.E))
	}
	for _, f := range cbAfter {
		f()
	}
	return ret
}

func sortedKeysL(m map[string][]string) []string {
	var ks []string
	for k := range m {
		ks = append(ks, k)
	}
	sortStrings(ks)
	return ks
}

func sortStrings(s []string) {
	for i := 1; i < len(s); i++ {
		for j := i; j > 0 && s[j] < s[j-1]; j-- {
			s[j], s[j-1] = s[j-1], s[j]
		}
	}
}

// callClosure: direct call of a known closure value.
func (v *Verifier) callClosure(st *State, in ssa.Instruction, ci *closureInfo, args []Value, retT types.Type) Value {
	key := funcKey(ci.fn)
	ct := v.prog.contract[key]
	if ct == nil {
		return v.havocCall(st, in, "closure "+key+" without contract", retT)
	}
	var names []string
	for _, p := range ci.fn.Params {
		names = append(names, p.Name())
	}
	extra := map[string]Value{}
	for i, fv := range ci.fn.FreeVars {
		if i < len(ci.bindings) {
			b := ci.bindings[i]
			if b.Addr != nil {
				extra["&"+fv.Name()] = b
				extra[fv.Name()] = v.loadAddr(st, b, in)
			} else {
				extra[fv.Name()] = b
			}
		}
	}
	return v.applyContract(st, in, key, ct, names, args, retT, extra)
}

// callMods adds the heap maps a call may modify (by map name); returns true for "everything".
func (v *Verifier) callMods(c *ssa.CallCommon, maps map[string]string) bool {
	if b, ok := c.Value.(*ssa.Builtin); ok {
		switch b.Name() {
		case "append", "copy":
			if len(c.Args) > 0 {
				if sl, ok := c.Args[0].Type().Underlying().(*types.Slice); ok {
					es := v.env.sr.sortOf(sl.Elem())
					maps[elemMapNameT(sl.Elem())] = arr("Int", arr("Int", es))
				}
			}
		case "delete":
			mt := c.Args[0].Type().Underlying().(*types.Map)
			_, mp, _, ks := v.env.mapNames(mt)
			maps[mp] = arr("Int", arr(ks, "Bool"))
			maps[v.env.mlName(mt)] = arr("Int", "Int")
		}
		return false
	}
	key, fn := v.calleeKey(c)
	if key == "" {
		return true
	}
	if ms, ok := nativeMods[key]; ok {
		return ms(v, c, maps)
	}
	ct := v.prog.contract[key]
	if ct == nil {
		return true
	}
	if ct.Pure {
		return false
	}
	// static resolution of modifies items by type
	ptypes := map[string]types.Type{}
	names := v.paramNames(c, fn, ct)
	sig := c.Signature()
	var ts []types.Type
	if c.IsInvoke() {
		ts = append(ts, c.Value.Type())
	} else if sig.Recv() != nil {
		ts = append(ts, sig.Recv().Type())
	}
	for i := 0; i < sig.Params().Len(); i++ {
		ts = append(ts, sig.Params().At(i).Type())
	}
	for i, n := range names {
		if i < len(ts) {
			ptypes[n] = ts[i]
		}
	}
	for _, m := range ct.Modifies {
		switch m.Kind {
		case "everything":
			return true
		case "field":
			t := v.staticType(m.E, ptypes, ct.Pkg)
			if t == nil {
				return true
			}
			if g, ok := v.prog.ghosts[m.Name]; ok && g.Key != nil {
				if _, _, isF := types.LookupFieldOrMethod(t, true, nil, m.Name); !isF {
					maps["G!"+g.Name] = v.ghostSort(g)
					continue
				}
			}
			ft := v.staticFieldMaps(t, m.Name, maps)
			if !ft {
				return true
			}
		case "fields":
			t := v.staticType(m.E, ptypes, ct.Pkg)
			if t == nil {
				return true
			}
			if p, ok := t.Underlying().(*types.Pointer); ok {
				t = p.Elem()
			}
			stt, ok := t.Underlying().(*types.Struct)
			if !ok {
				return true
			}
			for i := 0; i < stt.NumFields(); i++ {
				v.fieldMaps(t, i, maps)
			}
		case "elems":
			t := v.staticType(m.E, ptypes, ct.Pkg)
			sl, ok := t.Underlying().(*types.Slice)
			if t == nil || !ok {
				return true
			}
			es := v.env.sr.sortOf(sl.Elem())
			maps[elemMapNameT(sl.Elem())] = arr("Int", arr("Int", es))
		case "cell":
			t := v.staticType(m.E, ptypes, ct.Pkg)
			if t == nil {
				return true
			}
			if p, ok := t.Underlying().(*types.Pointer); ok {
				t = p.Elem()
			}
			es := v.env.sr.sortOf(t)
			maps[cellMapName(es)] = arr("Int", es)
		case "map":
			t := v.staticType(m.E, ptypes, ct.Pkg)
			if t == nil {
				return true
			}
			mt, ok := t.Underlying().(*types.Map)
			if !ok {
				return true
			}
			a, b, vs, ks := v.env.mapNames(mt)
			maps[a] = arr("Int", arr(ks, vs))
			maps[b] = arr("Int", arr(ks, "Bool"))
			maps[v.env.mlName(mt)] = arr("Int", "Int")
		case "allmap":
			maps["MV!Val!Int"] = arr("Int", arr("Val", "Int"))
			maps["MP!Val!Int"] = arr("Int", arr("Val", "Bool"))
			maps["ML!Val!Int"] = arr("Int", "Int")
		case "all", "allelems":
			se := &SpecEnv{e: v.env, pkg: ct.Pkg, qn: &v.qn}
			if m.Kind == "all" {
				parts := strings.Split(m.Name, ".")
				pk := ct.Pkg
				if len(parts) == 3 {
					pk = parts[0]
					parts = parts[1:]
				}
				t := se.resolveType(&TypeExpr{Kind: "name", Pkg: pk, Name: parts[0]})
				_, f := fieldByName(t, parts[1])
				if f == nil {
					return true
				}
				maps[fieldMapName(t, f.Name())] = arr("Int", v.env.sr.sortOf(f.Type()))
			} else {
				te, err := parseTypeString(m.Name)
				if err != nil {
					return true
				}
				es := v.env.sr.sortOf(se.resolveType(te))
				maps[elemMapNameT(se.resolveType(te))] = arr("Int", arr("Int", es))
			}
		case "ghost":
			g := v.prog.ghosts[m.Name]
			if g == nil {
				return true
			}
			maps["G!"+g.Name] = v.ghostSort(g)
		}
	}
	return false
}

func (v *Verifier) ghostSort(g *GhostVar) string {
	se := &SpecEnv{e: v.env, pkg: g.Pkg, qn: &v.qn}
	srt := v.env.sr.sortOf(se.resolveType(g.T))
	if g.Key2 != nil {
		return arr("Int", arr("Int", srt))
	}
	if g.Key != nil {
		return arr("Int", srt)
	}
	return srt
}

func (v *Verifier) staticFieldMaps(t types.Type, field string, maps map[string]string) bool {
	var pkg *types.Package
	if n := recvNamed(t); n != nil {
		pkg = n.Obj().Pkg()
	}
	o, path, _ := types.LookupFieldOrMethod(t, true, pkg, field)
	if _, ok := o.(*types.Var); !ok {
		return false
	}
	cur := t
	if p, ok := cur.Underlying().(*types.Pointer); ok {
		cur = p.Elem()
	}
	for i, idx := range path {
		st, ok := cur.Underlying().(*types.Struct)
		if !ok {
			return false
		}
		f := st.Field(idx)
		if i == len(path)-1 {
			v.fieldMaps(cur, idx, maps)
			return true
		}
		cur = f.Type()
		if p, ok := cur.Underlying().(*types.Pointer); ok {
			cur = p.Elem()
		}
	}
	return false
}

// staticType computes the Go type of a simple contract expression from parameter types.
func (v *Verifier) staticType(e Expr, ptypes map[string]types.Type, pkg string) types.Type {
	switch x := e.(type) {
	case *EIdent:
		return ptypes[x.Name]
	case *EUnary:
		if x.Op == "&" {
			if t := v.staticType(x.X, ptypes, pkg); t != nil {
				return types.NewPointer(t)
			}
		}
		return nil
	case *EField:
		t := v.staticType(x.X, ptypes, pkg)
		if t == nil {
			return nil
		}
		var p *types.Package
		if n := recvNamed(t); n != nil {
			p = n.Obj().Pkg()
		}
		o, _, _ := types.LookupFieldOrMethod(t, true, p, x.Name)
		if fv, ok := o.(*types.Var); ok {
			return fv.Type()
		}
		return nil
	case *EIndex:
		t := v.staticType(x.X, ptypes, pkg)
		if t == nil {
			return nil
		}
		switch u := t.Underlying().(type) {
		case *types.Slice:
			return u.Elem()
		case *types.Map:
			return u.Elem()
		}
	case *ECall:
		if id, ok := x.Fn.(*EIdent); ok && id.Name == "old" && len(x.Args) == 1 {
			return v.staticType(x.Args[0], ptypes, pkg)
		}
		// spec function with a declared result type
		if id, ok := x.Fn.(*EIdent); ok {
			sf := v.prog.specFn[pkg+"."+id.Name]
			if sf == nil {
				for k, f := range v.prog.specFn {
					if strings.HasSuffix(k, "."+id.Name) {
						sf = f
					}
				}
			}
			if sf != nil && sf.Ret != nil {
				var t types.Type
				func() {
					defer func() { recover() }()
					se := &SpecEnv{e: v.env, pkg: sf.Pkg, qn: &v.qn}
					t = se.resolveType(sf.Ret)
				}()
				return t
			}
		}
	}
	return nil
}

// ---------- builtins ----------

func (v *Verifier) builtin(st *State, in ssa.Instruction, b *ssa.Builtin, c *ssa.CallCommon) Value {
	intV := func(t string) Value { return Value{T: t, Sort: "Int", GoT: types.Typ[types.Int]} }
	switch b.Name() {
	case "len":
		a := v.operand(st, c.Args[0])
		switch a.Sort {
		case "Slice":
			return intV(sliceLen(a.T))
		case "Str":
			return intV(app("slen", a.T))
		case "Int":
			if _, ok := c.Args[0].Type().Underlying().(*types.Map); ok {
				l := v.env.mapLen(st, a)
				st.assume("(>= " + l + " 0)")
				st.assume(implies(eq(a.T, "0"), eq(l, "0")))
				return intV(l)
			}
			r := v.freshValue(st, "len", types.Typ[types.Int])
			st.assume("(>= " + r.T + " 0)")
			return r
		}
	case "cap":
		a := v.operand(st, c.Args[0])
		if a.Sort == "Slice" {
			return intV(sliceCap(a.T))
		}
	case "append":
		return v.doAppend(st, in, c)
	case "copy":
		return v.doCopy(st, in, c)
	case "delete":
		m := v.operand(st, c.Args[0])
		k := v.operand(st, c.Args[1])
		v.env.mapDelete(st, m, k)
		return Value{}
	case "panic":
		if !v.panicAllowed("explicit") {
			v.emit(st, "nopanic.explicit", v.siteLabel(in), "false", nil, "explicit panic reachable", in)
		}
		st.assume("false")
		return Value{}
	case "print", "println":
		return Value{}
	case "close":
		return Value{}
	case "min", "max":
		a := v.operand(st, c.Args[0])
		bb := v.operand(st, c.Args[1])
		if b.Name() == "min" {
			return Value{T: ite("(<= "+a.T+" "+bb.T+")", a.T, bb.T), Sort: "Int", GoT: a.GoT}
		}
		return Value{T: ite("(>= "+a.T+" "+bb.T+")", a.T, bb.T), Sort: "Int", GoT: a.GoT}
	}
	v.unsupportedf("builtin %s", b.Name())
	return Value{}
}

// constSliceLen: if x is a slice of a local fixed-size array (varargs), return its element terms.
func (v *Verifier) varargElems(st *State, x ssa.Value) ([]string, bool) {
	sl, ok := x.(*ssa.Slice)
	if !ok || sl.Low != nil || sl.High != nil {
		return nil, false
	}
	al, ok := sl.X.(*ssa.Alloc)
	if !ok {
		return nil, false
	}
	at, ok := al.Type().(*types.Pointer).Elem().Underlying().(*types.Array)
	if !ok || at.Len() > 4 {
		return nil, false
	}
	av := st.regs[al]
	if av.Addr == nil {
		return nil, false
	}
	es := v.env.sr.sortOf(at.Elem())
	v.env.noteMapType(elemMapNameT(at.Elem()), at.Elem(), "elem")
	m := v.env.heapGet(st, elemMapNameT(at.Elem()), arr("Int", arr("Int", es)))
	var out []string
	for i := int64(0); i < at.Len(); i++ {
		out = append(out, sel2(sel2(m, av.Addr.Obj), intLit(i)))
	}
	return out, true
}

func (v *Verifier) doAppend(st *State, in ssa.Instruction, c *ssa.CallCommon) Value {
	s := v.operand(st, c.Args[0])
	elemT := c.Args[0].Type().Underlying().(*types.Slice).Elem()
	es := v.env.sr.sortOf(elemT)
	name := elemMapNameT(elemT)
	v.env.noteMapType(name, elemT, "elem")
	ms := arr("Int", arr("Int", es))
	E := v.env.heapGet(st, name, ms)
	n := sliceLen(s.T)
	b := sliceBase(s.T)
	off := sliceOff(s.T)
	st.addLen(n)
	ctx := v.env.ctx
	A := ctx.freshConst("app.arr", arr("Int", es))
	nb := v.env.allocRef(st, "app")
	ncap := ctx.freshConst("app.cap", "Int")
	var k string
	var fitsDef, growDef string
	if elems, ok := v.varargElems(st, c.Args[1]); ok {
		k = intLit(int64(len(elems)))
		// in place: explicit stores
		t := sel2(E, b)
		for i, e := range elems {
			t = sto(t, add(add(off, n), intLit(int64(i))), e)
		}
		fitsDef = eq(A, t)
		var gs []string
		gs = append(gs, "(forall ((j Int)) (! (=> (and (<= 0 j) (< j "+n+")) (= (select "+A+" j) (select (select "+E+" "+b+") (+ "+off+" j)))) :pattern ((select "+A+" j))))")
		for i, e := range elems {
			gs = append(gs, eq(sel2(A, add(n, intLit(int64(i)))), e))
		}
		growDef = and(gs...)
	} else {
		xs := v.operand(st, c.Args[1])
		var srcAt func(j string) string
		if xs.Sort == "Str" {
			k = app("slen", xs.T)
			srcAt = func(j string) string { return app("sat", xs.T, j) }
		} else {
			k = sliceLen(xs.T)
			xb, xo := sliceBase(xs.T), sliceOff(xs.T)
			srcAt = func(j string) string { return sel2(sel2(E, xb), "(+ "+xo+" "+j+")") }
		}
		lo := add(off, n)
		fitsDef = "(forall ((j Int)) (! (= (select " + A + " j) (ite (and (<= " + lo + " j) (< j (+ " + lo + " " + k + "))) " + srcAt("(- j "+lo+")") + " (select (select " + E + " " + b + ") j))) :pattern ((select " + A + " j))))"
		growDef = "(forall ((j Int)) (! (and (=> (and (<= 0 j) (< j " + n + ")) (= (select " + A + " j) (select (select " + E + " " + b + ") (+ " + off + " j)))) (=> (and (<= " + n + " j) (< j (+ " + n + " " + k + "))) (= (select " + A + " j) " + srcAt("(- j "+n+")") + "))) :pattern ((select " + A + " j))))"
	}
	total := "(+ " + n + " " + k + ")"
	fits := "(<= " + total + " " + sliceCap(s.T) + ")"
	// appending nothing returns the slice unchanged
	st.assume(implies(fits, fitsDef))
	st.assume(implies(not(fits), growDef))
	st.assume("(>= " + ncap + " " + total + ")")
	rb := ite(fits, b, nb)
	v.env.heapSet(st, name, ms, sto(E, rb, A))
	r := mkSlice(rb, ite(fits, off, "0"), total, ite(fits, sliceCap(s.T), ncap))
	rc := ctx.freshConst("app.res", "Slice")
	st.assume(eq(rc, r))
	return Value{T: rc, Sort: "Slice", GoT: c.Args[0].Type()}
}

func (v *Verifier) doCopy(st *State, in ssa.Instruction, c *ssa.CallCommon) Value {
	d := v.operand(st, c.Args[0])
	s := v.operand(st, c.Args[1])
	elemT := c.Args[0].Type().Underlying().(*types.Slice).Elem()
	es := v.env.sr.sortOf(elemT)
	name := elemMapNameT(elemT)
	v.env.noteMapType(name, elemT, "elem")
	ms := arr("Int", arr("Int", es))
	E := v.env.heapGet(st, name, ms)
	var sl string
	var srcAt func(j string) string
	if s.Sort == "Str" {
		sl = app("slen", s.T)
		srcAt = func(j string) string { return app("sat", s.T, j) }
	} else {
		sl = sliceLen(s.T)
		srcAt = func(j string) string { return sel2(sel2(E, sliceBase(s.T)), "(+ "+sliceOff(s.T)+" "+j+")") }
	}
	k := ite("(<= "+sliceLen(d.T)+" "+sl+")", sliceLen(d.T), sl)
	A := v.env.ctx.freshConst("copy.arr", arr("Int", es))
	lo := sliceOff(d.T)
	st.assume("(forall ((j Int)) (! (= (select " + A + " j) (ite (and (<= " + lo + " j) (< j (+ " + lo + " " + k + "))) " + srcAt("(- j "+lo+")") + " (select (select " + E + " " + sliceBase(d.T) + ") j))) :pattern ((select " + A + " j))))")
	v.env.heapSet(st, name, ms, sto(E, sliceBase(d.T), A))
	return Value{T: k, Sort: "Int", GoT: types.Typ[types.Int]}
}

// ---------- native stubs (trusted models of library functions) ----------

type nativeFn func(v *Verifier, st *State, in ssa.Instruction, c *ssa.CallCommon, args []Value, retT types.Type) Value
type nativeModFn func(v *Verifier, c *ssa.CallCommon, maps map[string]string) bool

var nativeStubs = map[string]nativeFn{}
var nativeMods = map[string]nativeModFn{}

// errIs models errors.Is through up to three levels of %w wrapping (deeper chains do not occur in mkdb).
func errIs(e *Env, err, target string) string {
	e.ctx.declFun("errwraps", []string{"Val"}, "Val")
	w1 := app("errwraps", err)
	w2 := app("errwraps", w1)
	w3 := app("errwraps", w2)
	return and(not(eq(err, "VNil")), or(eq(err, target), and(not(eq(w1, "VNil")), or(eq(w1, target), and(not(eq(w2, "VNil")), or(eq(w2, target), eq(w3, target)))))))
}

func pureMods(v *Verifier, c *ssa.CallCommon, maps map[string]string) bool { return false }

// pureLib: library functions without effect on the modelled state whose result is left
// unconstrained (beyond its type).
var pureLib = []string{"strings.Join", "strings.Split", "strings.Contains", "strings.HasPrefix", "strings.HasSuffix",
	"strings.Repeat", "strings.Fields", "strings.Index", "strings.EqualFold", "strings.TrimLeft", "strings.TrimRight", "strings.Trim",
	"strconv.Itoa", "strconv.Quote", "strconv.FormatInt", "os.IsNotExist", "os.IsExist", "os.Stat",
	"utf8.RuneCount", "utf8.RuneLen", "utf8.DecodeRune", "utf8.RuneCountInString", "unicode.IsSpace", "unicode.IsLetter", "unicode.IsDigit",
	"sort.Strings"}

func init() {
	for _, k := range pureLib {
		if k == "sort.Strings" {
			continue
		}
		nativeStubs[k] = func(v *Verifier, st *State, in ssa.Instruction, c *ssa.CallCommon, args []Value, retT types.Type) Value {
			if retT == nil {
				return Value{}
			}
			r := v.freshValue(st, "ret.lib", retT)
			if r.Sort == "Slice" {
				// a freshly allocated result: above the allocation mark of the call, below the new one. The type facts
				// (which bound the base by the current mark) are assumed after the mark has moved; assuming them first
				// contradicted freshness and made everything after such a call unreachable.
				st.assume("(> " + sliceBase(r.T) + " " + st.alloc + ")")
				na := v.env.ctx.freshConst("alloc", "Int")
				st.assume("(>= " + na + " " + sliceBase(r.T) + ")")
				st.alloc = na
			}
			v.assumeTypeFacts(st, r)
			return r
		}
		nativeMods[k] = pureMods
	}
	// fmt: formatting has no effect on the modelled state; results are unknown strings / fresh errors
	for _, k := range []string{"fmt.Printf", "fmt.Println", "fmt.Print", "fmt.Fprintf", "fmt.Fprint", "fmt.Fprintln"} {
		nativeStubs[k] = func(v *Verifier, st *State, in ssa.Instruction, c *ssa.CallCommon, args []Value, retT types.Type) Value {
			r := v.freshValue(st, "ret.fmt", retT)
			v.assumeTypeFacts(st, r)
			return r
		}
		nativeMods[k] = pureMods
	}
	nativeStubs["fmt.Sprintf"] = func(v *Verifier, st *State, in ssa.Instruction, c *ssa.CallCommon, args []Value, retT types.Type) Value {
		r := v.freshValue(st, "sprintf", retT)
		v.assumeTypeFacts(st, r)
		return r
	}
	nativeMods["fmt.Sprintf"] = pureMods
	nativeStubs["fmt.Sprint"] = nativeStubs["fmt.Sprintf"]
	nativeMods["fmt.Sprint"] = pureMods
	nativeStubs["fmt.Errorf"] = func(v *Verifier, st *State, in ssa.Instruction, c *ssa.CallCommon, args []Value, retT types.Type) Value {
		r := v.env.freshErr(st)
		v.env.ctx.declFun("errwraps", []string{"Val"}, "Val")
		wrapped := "VNil"
		// %w wrapping: the k-th verb being %w wraps the k-th variadic argument
		if fc, ok := c.Args[0].(*ssa.Const); ok && fc.Value != nil && len(c.Args) == 2 {
			format := constant.StringVal(fc.Value)
			if elems, ok := v.varargElems(st, c.Args[1]); ok {
				k := 0
				for i := 0; i+1 < len(format); i++ {
					if format[i] != '%' {
						continue
					}
					if format[i+1] == '%' {
						i++
						continue
					}
					if format[i+1] == 'w' && k < len(elems) {
						wrapped = elems[k]
					}
					k++
				}
			}
		}
		st.assume(eq(app("errwraps", r.T), wrapped))
		return r
	}
	nativeMods["fmt.Errorf"] = pureMods
	for _, k := range []string{"strings.NewReader", "bytes.NewReader", "bufio.NewReader"} {
		nativeStubs[k] = func(v *Verifier, st *State, in ssa.Instruction, c *ssa.CallCommon, args []Value, retT types.Type) Value {
			r := v.env.allocRef(st, "reader")
			return Value{T: r, Sort: "Int", GoT: retT}
		}
		nativeMods[k] = pureMods
	}
	// bytes.Buffer as an opaque object with a version counter: Bytes()/Len() are functions of
	// (buffer, version); every write bumps the version (trusted model, refined by the typed-stream
	// stubs where codecs are verified)
	nativeStubs["bytes.NewBuffer"] = func(v *Verifier, st *State, in ssa.Instruction, c *ssa.CallCommon, args []Value, retT types.Type) Value {
		r := v.env.allocRef(st, "buffer")
		v.env.ctx.declFun("buf.init", []string{"Int"}, "Slice")
		st.assume(eq(app("buf.init", r), args[0].T))
		return Value{T: r, Sort: "Int", GoT: retT}
	}
	nativeMods["bytes.NewBuffer"] = pureMods
	nativeStubs["bytes.(*Buffer).Bytes"] = func(v *Verifier, st *State, in ssa.Instruction, c *ssa.CallCommon, args []Value, retT types.Type) Value {
		ver := v.env.heapGet(st, "G!bufver", arr("Int", "Int"))
		v.env.ctx.declFun("buf.bytes", []string{"Int", "Int"}, "Slice")
		r := Value{T: app("buf.bytes", args[0].T, sel2(ver, args[0].T)), Sort: "Slice", GoT: retT}
		st.assume(sliceWF(r.T))
		return r
	}
	nativeMods["bytes.(*Buffer).Bytes"] = pureMods
	nativeStubs["bytes.(*Buffer).Len"] = func(v *Verifier, st *State, in ssa.Instruction, c *ssa.CallCommon, args []Value, retT types.Type) Value {
		ver := v.env.heapGet(st, "G!bufver", arr("Int", "Int"))
		v.env.ctx.declFun("buf.bytes", []string{"Int", "Int"}, "Slice")
		return Value{T: sliceLen(app("buf.bytes", args[0].T, sel2(ver, args[0].T))), Sort: "Int", GoT: retT}
	}
	nativeMods["bytes.(*Buffer).Len"] = pureMods
	nativeStubs["builtin.(error).Error"] = func(v *Verifier, st *State, in ssa.Instruction, c *ssa.CallCommon, args []Value, retT types.Type) Value {
		r := v.freshValue(st, "errtext", retT)
		v.assumeTypeFacts(st, r)
		return r
	}
	nativeMods["builtin.(error).Error"] = pureMods
	nativeStubs["errors.New"] = func(v *Verifier, st *State, in ssa.Instruction, c *ssa.CallCommon, args []Value, retT types.Type) Value {
		return v.env.freshErr(st)
	}
	nativeMods["errors.New"] = pureMods
	nativeStubs["errors.Is"] = func(v *Verifier, st *State, in ssa.Instruction, c *ssa.CallCommon, args []Value, retT types.Type) Value {
		return Value{T: errIs(v.env, args[0].T, args[1].T), Sort: "Bool", GoT: retT}
	}
	nativeMods["errors.Is"] = pureMods
	nativeStubs["strings.ToLower"] = func(v *Verifier, st *State, in ssa.Instruction, c *ssa.CallCommon, args []Value, retT types.Type) Value {
		v.env.ctx.axiom("(forall ((s Str)) (! (and (= (slen (slower s)) (slen s)) (= (slower (slower s)) (slower s))) :pattern ((slower s))))")
		return Value{T: app("slower", args[0].T), Sort: "Str", GoT: retT}
	}
	nativeMods["strings.ToLower"] = pureMods
	nativeStubs["strings.ToUpper"] = func(v *Verifier, st *State, in ssa.Instruction, c *ssa.CallCommon, args []Value, retT types.Type) Value {
		v.env.ctx.axiom("(forall ((s Str)) (! (and (= (slen (supper s)) (slen s)) (= (supper (supper s)) (supper s))) :pattern ((supper s))))")
		return Value{T: app("supper", args[0].T), Sort: "Str", GoT: retT}
	}
	nativeMods["strings.ToUpper"] = pureMods
	nativeStubs["strings.Compare"] = func(v *Verifier, st *State, in ssa.Instruction, c *ssa.CallCommon, args []Value, retT types.Type) Value {
		v.strOrderAxioms()
		return Value{T: app("scmp", args[0].T, args[1].T), Sort: "Int", GoT: retT}
	}
	nativeMods["strings.Compare"] = pureMods
	nativeStubs["strings.TrimSpace"] = func(v *Verifier, st *State, in ssa.Instruction, c *ssa.CallCommon, args []Value, retT types.Type) Value {
		v.env.ctx.declFun("strim", []string{"Str"}, "Str")
		v.env.ctx.axiom("(forall ((s Str)) (! (<= (slen (strim s)) (slen s)) :pattern ((strim s))))")
		return Value{T: app("strim", args[0].T), Sort: "Str", GoT: retT}
	}
	nativeMods["strings.TrimSpace"] = pureMods
	nativeStubs["strconv.Atoi"] = func(v *Verifier, st *State, in ssa.Instruction, c *ssa.CallCommon, args []Value, retT types.Type) Value {
		v.env.ctx.declFun("atoi", []string{"Str"}, "Int")
		v.env.ctx.declFun("atoi.ok", []string{"Str"}, "Bool")
		n := app("atoi", args[0].T)
		ok := app("atoi.ok", args[0].T)
		v.env.ctx.axiom("(forall ((s Str)) (! (and (<= (- 9223372036854775808) (atoi s)) (<= (atoi s) 9223372036854775807)) :pattern ((atoi s))))")
		e := v.env.freshErr(st)
		errT := types.Universe.Lookup("error").Type()
		return Value{Tuple: []Value{
			{T: ite(ok, n, "0"), Sort: "Int", GoT: types.Typ[types.Int]},
			{T: ite(ok, "VNil", e.T), Sort: "Val", GoT: errT},
		}, GoT: retT}
	}
	nativeMods["strconv.Atoi"] = pureMods
	nativeStubs["math.Round"] = func(v *Verifier, st *State, in ssa.Instruction, c *ssa.CallCommon, args []Value, retT types.Type) Value {
		x := args[0].T
		// round half away from zero over the reals
		r := ite("(>= "+x+" 0.0)", "(to_real (to_int (+ "+x+" 0.5)))", "(- (to_real (to_int (+ (- "+x+") 0.5))))")
		return Value{T: r, Sort: "Real", GoT: retT}
	}
	nativeMods["math.Round"] = pureMods
	// sort.Slice(x, less): the elements of x are permuted (trusted: sort.Slice only swaps elements);
	// less may be called for any pair of valid indices, so its precondition must hold for all of them.
	nativeStubs["sort.Slice"] = func(v *Verifier, st *State, in ssa.Instruction, c *ssa.CallCommon, args []Value, retT types.Type) Value {
		mi, ok := c.Args[0].(*ssa.MakeInterface)
		if !ok {
			return v.havocCall(st, in, "sort.Slice on a non-literal interface", retT)
		}
		sl := v.operand(st, mi.X)
		slT, ok := mi.X.Type().Underlying().(*types.Slice)
		if !ok {
			return v.havocCall(st, in, "sort.Slice on a non-slice", retT)
		}
		ln := sliceLen(sl.T)
		if ci, ok := v.closures[args[1].T]; ok {
			if ct := v.prog.contract[funcKey(ci.fn)]; ct != nil && len(ci.fn.Params) == 2 {
				i0 := v.env.ctx.freshConst("sort.i", "Int")
				j0 := v.env.ctx.freshConst("sort.j", "Int")
				s2 := st.clone()
				s2.assume(and("(<= 0 "+i0+")", "(< "+i0+" "+ln+")", "(<= 0 "+j0+")", "(< "+j0+" "+ln+")"))
				s2.addCand(i0)
				s2.addCand(j0)
				vars := map[string]Value{
					ci.fn.Params[0].Name(): {T: i0, Sort: "Int", GoT: types.Typ[types.Int]},
					ci.fn.Params[1].Name(): {T: j0, Sort: "Int", GoT: types.Typ[types.Int]},
				}
				for k, fv := range ci.fn.FreeVars {
					if k < len(ci.bindings) {
						b := ci.bindings[k]
						if b.Addr != nil {
							vars["&"+fv.Name()] = b
							vars[fv.Name()] = v.loadAddr(s2, b, in)
						} else {
							vars[fv.Name()] = b
						}
					}
				}
				se := &SpecEnv{e: v.env, s: s2, vars: vars, pkg: ct.Pkg, qn: &v.qn}
				for _, r := range ct.Requires {
					v.emit(s2, "pre", "callback."+ci.fn.Name()+"."+r.Label+"@"+v.siteLabel(in), se.evalBool(r.E), v.contractProps(), "less callback precondition for all index pairs: "+r.Text, in)
				}
			} else {
				v.notes = append(v.notes, "sort.Slice: comparator without contract at "+v.posOf(in))
			}
		}
		// permutation of the elements
		es := v.env.sr.sortOf(slT.Elem())
		name := elemMapNameT(slT.Elem())
		v.env.noteMapType(name, slT.Elem(), "elem")
		ms := arr("Int", arr("Int", es))
		E := v.env.heapGet(st, name, ms)
		A := v.env.ctx.freshConst("sorted.arr", arr("Int", es))
		v.env.ctx.fresh++
		perm := fmt.Sprintf("perm!%d", v.env.ctx.fresh)
		v.env.ctx.declFun(perm, []string{"Int"}, "Int")
		off := sliceOff(sl.T)
		base := sliceBase(sl.T)
		st.assume("(forall ((i Int)) (! (=> (and (<= 0 i) (< i " + ln + ")) (and (<= 0 (" + perm + " i)) (< (" + perm + " i) " + ln + ") (= (select " + A + " (+ " + off + " i)) (select (select " + E + " " + base + ") (+ " + off + " (" + perm + " i)))))) :pattern ((select " + A + " (+ " + off + " i)))))")
		st.assume("(forall ((k Int)) (! (=> (or (< k " + off + ") (>= k (+ " + off + " " + ln + "))) (= (select " + A + " k) (select (select " + E + " " + base + ") k))) :pattern ((select " + A + " k))))")
		v.env.heapSet(st, name, ms, sto(E, base, A))
		return Value{}
	}
	nativeMods["sort.Slice"] = func(v *Verifier, c *ssa.CallCommon, maps map[string]string) bool {
		if mi, ok := c.Args[0].(*ssa.MakeInterface); ok {
			if slT, ok := mi.X.Type().Underlying().(*types.Slice); ok {
				es := v.env.sr.sortOf(slT.Elem())
				maps[elemMapNameT(slT.Elem())] = arr("Int", arr("Int", es))
				return false
			}
		}
		return true
	}
	// encoding/binary on a bytes.Buffer / file: Write appends to the stream (the buffer's version
	// changes), Read consumes from it and stores an unknown value of the pointee's type through the
	// pointer it is given. Either may return an error. (Content-level stream model: see stubs.)
	bumpBuf := func(v *Verifier, st *State, w Value) {
		ref := w.T
		if w.Sort == "Val" {
			ref = app("valref", w.T)
		}
		ver := v.env.heapGet(st, "G!bufver", arr("Int", "Int"))
		nv := v.env.ctx.freshConst("bufver", "Int")
		v.env.heapSet(st, "G!bufver", arr("Int", "Int"), sto(ver, ref, nv))
	}
	errOrNil := func(v *Verifier, st *State, retT types.Type) Value {
		r := v.freshValue(st, "ret.io", retT)
		v.assumeTypeFacts(st, r)
		return r
	}
	nativeStubs["binary.Write"] = func(v *Verifier, st *State, in ssa.Instruction, c *ssa.CallCommon, args []Value, retT types.Type) Value {
		bumpBuf(v, st, args[0])
		return errOrNil(v, st, retT)
	}
	nativeMods["binary.Write"] = func(v *Verifier, c *ssa.CallCommon, maps map[string]string) bool {
		maps["G!bufver"] = arr("Int", "Int")
		return false
	}
	nativeStubs["binary.Read"] = func(v *Verifier, st *State, in ssa.Instruction, c *ssa.CallCommon, args []Value, retT types.Type) Value {
		bumpBuf(v, st, args[0])
		mi, ok := c.Args[2].(*ssa.MakeInterface)
		if !ok {
			v.unsupportedf("binary.Read into a value that is not a pointer literal at %s", v.posOf(in))
		}
		p := v.operand(st, mi.X)
		pt, ok := mi.X.Type().Underlying().(*types.Pointer)
		if !ok {
			v.unsupportedf("binary.Read into a non-pointer at %s", v.posOf(in))
		}
		nv := v.freshValue(st, "read", pt.Elem())
		v.assumeTypeFacts(st, nv)
		v.storeAddr(st, p, nv, in)
		return errOrNil(v, st, retT)
	}
	nativeMods["binary.Read"] = func(v *Verifier, c *ssa.CallCommon, maps map[string]string) bool {
		maps["G!bufver"] = arr("Int", "Int")
		if mi, ok := c.Args[2].(*ssa.MakeInterface); ok {
			if pt, ok := mi.X.Type().Underlying().(*types.Pointer); ok {
				v.storeTargets(mi.X, pt.Elem(), maps)
				return false
			}
		}
		return true
	}
	nativeStubs["bytes.(*Buffer).Read"] = func(v *Verifier, st *State, in ssa.Instruction, c *ssa.CallCommon, args []Value, retT types.Type) Value {
		bumpBuf(v, st, args[0])
		// the destination bytes become unknown
		dst := args[1]
		name := elemMapNameT(types.Typ[types.Uint8])
		srt := arr("Int", arr("Int", "Int"))
		cur := v.env.heapGet(st, name, srt)
		fv := v.env.ctx.freshConst("readbytes", arr("Int", "Int"))
		v.env.heapSet(st, name, srt, sto(cur, sliceBase(dst.T), fv))
		r := v.freshValue(st, "ret.read", retT)
		v.assumeTypeFacts(st, r)
		if r.Tuple != nil {
			st.assume("(and (<= 0 " + r.Tuple[0].T + ") (<= " + r.Tuple[0].T + " " + sliceLen(dst.T) + "))")
		}
		return r
	}
	nativeMods["bytes.(*Buffer).Read"] = func(v *Verifier, c *ssa.CallCommon, maps map[string]string) bool {
		maps["G!bufver"] = arr("Int", "Int")
		maps[elemMapNameT(types.Typ[types.Uint8])] = arr("Int", arr("Int", "Int"))
		return false
	}
	// path construction as deterministic (uninterpreted) functions, so that contracts can say
	// which path a database name maps to
	nativeStubs["filepath.Join"] = func(v *Verifier, st *State, in ssa.Instruction, c *ssa.CallCommon, args []Value, retT types.Type) Value {
		if elems, ok := v.varargElems(st, c.Args[0]); ok && len(elems) == 3 {
			v.env.ctx.declFun("path.join3", []string{"Str", "Str", "Str"}, "Str")
			return Value{T: app("path.join3", elems...), Sort: "Str", GoT: retT}
		}
		r := v.freshValue(st, "ret.lib", retT)
		return r
	}
	nativeMods["filepath.Join"] = pureMods
	nativeStubs["strings.ToLower"] = func(v *Verifier, st *State, in ssa.Instruction, c *ssa.CallCommon, args []Value, retT types.Type) Value {
		v.env.ctx.declFun("str.lower", []string{"Str"}, "Str")
		return Value{T: app("str.lower", args[0].T), Sort: "Str", GoT: retT}
	}
	nativeMods["strings.ToLower"] = pureMods
	// strings.EqualFold(a, b) is modelled as ToLower(a) == ToLower(b) (trusted: simple case folding and lower-casing agree
	// on the names in question)
	nativeStubs["strings.EqualFold"] = func(v *Verifier, st *State, in ssa.Instruction, c *ssa.CallCommon, args []Value, retT types.Type) Value {
		v.env.ctx.declFun("str.lower", []string{"Str"}, "Str")
		return Value{T: eq(app("str.lower", args[0].T), app("str.lower", args[1].T)), Sort: "Bool", GoT: retT}
	}
	nativeMods["strings.EqualFold"] = pureMods
	// io.ReadFull on a reader with a ghost count of remaining bytes: a full read, a clean end
	// (0 bytes, io.EOF), a short read (io.ErrUnexpectedEOF) or some other I/O error.
	nativeStubs["io.ReadFull"] = func(v *Verifier, st *State, in ssa.Instruction, c *ssa.CallCommon, args []Value, retT types.Type) Value {
		ref := args[0].T
		if args[0].Sort == "Val" {
			ref = app("valref", args[0].T)
		}
		srt := arr("Int", "Int")
		rem := v.env.heapGet(st, "G!ioRemaining", srt)
		cur := sel2(rem, ref)
		st.assume("(>= " + cur + " 0)")
		want := sliceLen(args[1].T)
		ioPkg := v.prog.typPkgs["io"]
		eof := v.env.globalValue(st, "io", ioPkg.Scope().Lookup("EOF").(*types.Var))
		ueof := v.env.globalValue(st, "io", ioPkg.Scope().Lookup("ErrUnexpectedEOF").(*types.Var))
		other := v.env.freshErr(st)
		isOther := v.env.ctx.freshConst("io.fail", "Bool")
		n := v.env.ctx.freshConst("io.n", "Int")
		errT := ite(isOther, other.T, ite(eq(want, "0"), "VNil", ite(eq(cur, "0"), eof.T, ite("(< "+cur+" "+want+")", ueof.T, "VNil"))))
		nT := ite(isOther, n, ite("(< "+cur+" "+want+")", cur, want))
		st.assume("(and (<= 0 " + n + ") (< " + n + " (+ " + want + " 1)))")
		left := ite(isOther, v.env.ctx.freshConst("io.left", "Int"), ite("(< "+cur+" "+want+")", "0", sub(cur, want)))
		v.env.heapSet(st, "G!ioRemaining", srt, sto(rem, ref, left))
		st.assume("(>= " + sel2(v.env.heapGet(st, "G!ioRemaining", srt), ref) + " 0)")
		// the destination bytes become unknown
		name := elemMapNameT(types.Typ[types.Uint8])
		bs := arr("Int", arr("Int", "Int"))
		curB := v.env.heapGet(st, name, bs)
		v.env.heapSet(st, name, bs, sto(curB, sliceBase(args[1].T), v.env.ctx.freshConst("readbytes", arr("Int", "Int"))))
		tup := retT.(*types.Tuple)
		return Value{Tuple: []Value{{T: nT, Sort: "Int", GoT: tup.At(0).Type()}, {T: errT, Sort: "Val", GoT: tup.At(1).Type()}}, GoT: retT}
	}
	nativeMods["io.ReadFull"] = func(v *Verifier, c *ssa.CallCommon, maps map[string]string) bool {
		maps["G!ioRemaining"] = arr("Int", "Int")
		maps[elemMapNameT(types.Typ[types.Uint8])] = arr("Int", arr("Int", "Int"))
		return false
	}
	for _, k := range []string{"binary.(littleEndian).Uint32", "binary.(littleEndian).Uint64", "binary.(littleEndian).Uint16"} {
		nativeStubs[k] = func(v *Verifier, st *State, in ssa.Instruction, c *ssa.CallCommon, args []Value, retT types.Type) Value {
			r := v.freshValue(st, "le", retT)
			v.assumeTypeFacts(st, r)
			return r
		}
		nativeMods[k] = pureMods
	}
	nativeStubs["binary.(littleEndian).PutUint32"] = func(v *Verifier, st *State, in ssa.Instruction, c *ssa.CallCommon, args []Value, retT types.Type) Value {
		dst := args[len(args)-2]
		v.checkSite(st, in, "index", "(>= "+sliceLen(dst.T)+" 4)", "PutUint32 on a slice shorter than 4 bytes")
		name := elemMapNameT(types.Typ[types.Uint8])
		bs := arr("Int", arr("Int", "Int"))
		curB := v.env.heapGet(st, name, bs)
		v.env.heapSet(st, name, bs, sto(curB, sliceBase(dst.T), v.env.ctx.freshConst("putbytes", arr("Int", "Int"))))
		return Value{}
	}
	nativeMods["binary.(littleEndian).PutUint32"] = func(v *Verifier, c *ssa.CallCommon, maps map[string]string) bool {
		maps[elemMapNameT(types.Typ[types.Uint8])] = arr("Int", arr("Int", "Int"))
		return false
	}
	nativeStubs["reflect.TypeOf"] = func(v *Verifier, st *State, in ssa.Instruction, c *ssa.CallCommon, args []Value, retT types.Type) Value {
		// the reflect.Type of x is represented by x itself; reflect.TypeOf(nil) is the nil Type, so a
		// following .Kind() is a method call on a nil interface (a panic site)
		x := args[0]
		if x.Sort != "Val" {
			x = v.env.makeIface(x)
		}
		return Value{T: x.T, Sort: "Val", GoT: retT}
	}
	nativeStubs["reflect.(Type).Kind"] = func(v *Verifier, st *State, in ssa.Instruction, c *ssa.CallCommon, args []Value, retT types.Type) Value {
		x := args[0]
		isT := func(t types.Type) string { return v.env.valIsType(x, t) }
		// exact for the four predeclared types; any other dynamic type (named types included, whose
		// kind is that of their underlying type) has some kind in the range of reflect.Kind
		v.env.ctx.declFun("reflect.kind", []string{"Val"}, "Int")
		other := app("reflect.kind", x.T)
		st.assume("(and (<= 0 " + other + ") (<= " + other + " 26))")
		k := ite(isT(types.Typ[types.Int64]), "6", ite(isT(types.Typ[types.String]), "24", ite(isT(types.Typ[types.Bool]), "1", ite(isT(types.Typ[types.Int]), "2", other))))
		return Value{T: k, Sort: "Int", GoT: retT}
	}
	nativeMods["reflect.(Type).Kind"] = pureMods
	nativeMods["reflect.TypeOf"] = pureMods
}

// havocSets forgets the listed locations: whole maps for "*" entries, single objects otherwise.
func (v *Verifier) havocSets(st *State, sets map[string][]string, sorts map[string]string) {
	for _, name := range sortedKeysL(sets) {
		objs := sets[name]
		srt := sorts[name]
		wild := false
		for _, o := range objs {
			if o == "*" {
				wild = true
			}
		}
		if wild || !strings.HasPrefix(srt, "(Array Int ") {
			v.env.heapHavoc(st, name, srt)
			continue
		}
		cur := v.env.heapGet(st, name, srt)
		inner := strings.TrimSuffix(strings.TrimPrefix(srt, "(Array Int "), ")")
		term := cur
		mt, typed := v.env.mapTypes[name]
		for _, o := range objs {
			fv := v.env.ctx.freshConst("hv."+name, inner)
			term = sto(term, o, fv)
			if typed && mt.Shape == "field" && envInt("GOVC_TYPEDHAVOC", 1) == 1 {
				// the unknown new value is still a value of the field's Go type
				// (shape and range only: the value may refer to objects the callee allocates)
				if f := v.env.typeFacts(nil, Value{T: fv, Sort: inner, GoT: mt.T}); f != "true" {
					st.assume(f)
				}
			}
		}
		v.env.heapSet(st, name, srt, term)
	}
}
