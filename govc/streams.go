package main

// Byte-level model of bytes.Buffer and encoding/binary (little endian, fixed-width values and
// byte slices). Trusted: that this is what the library does. Per buffer object b:
//
//	bufdata(b, i)   the i-th byte ever written to b (absolute position, never shifted)
//	bufr(b)         read position:  bytes [0, bufr) have been consumed
//	bufw(b)         write position: bytes [bufr, bufw) are unread; Len() == bufw - bufr
//
// binary.Write(b, LittleEndian, x) appends the little-endian bytes of a fixed-width x (two's
// complement for signed types, 0/1 for bool) or the bytes of a []byte and returns nil;
// binary.Read(b, LittleEndian, &x) consumes sizeof(x) bytes when that many are unread and stores
// the value they encode, otherwise it returns a non-nil error, stores nothing and drains b.
// The opaque version counter bufver(b) of the older model is still bumped by every operation.
//
// Not modelled: aliasing between a buffer and the slice it was created from (bytes.NewBuffer) or
// a slice it handed out (Bytes, Next): both are treated as copies. Memory exhaustion
// (ErrTooLarge panics) is not modelled.

// Byte-level model of *os.File contents (data file): per file object f
//
//	fdata(f, i)   the byte at absolute position i
//	fsize(f)      the file size
//	fpos(f)       the position of sequential reads (binary.Read(f, ...))
//
// WriteAt(p, off) either fails (non-nil error; the bytes in [off, off+len(p)) and the size become
// unknown, everything else stays) or stores p at off and returns (len(p), nil). ReadAt(p, off)
// either fails with an arbitrary error (p unknown) or copies the min(len(p), fsize-off) bytes at
// off into p and returns io.EOF iff fewer than len(p) bytes were available. Trusted: that the
// operating system behaves like this (no crash, no concurrent writer - those are C02-C04's
// quantifiers, not decided here).

import (
	"fmt"
	"go/types"
	"math/big"
	"strings"

	"golang.org/x/tools/go/ssa"
)

const (
	gBufR = "G!bufr"
	gBufW = "G!bufw"
	gBufD = "G!bufdata"
)

var srtII = arr("Int", "Int")
var srtIII = arr("Int", arr("Int", "Int"))

func isBufferPtr(t types.Type) bool {
	p, ok := t.Underlying().(*types.Pointer)
	if !ok {
		return false
	}
	n, ok := p.Elem().(*types.Named)
	return ok && n.Obj().Pkg() != nil && n.Obj().Pkg().Path() == "bytes" && n.Obj().Name() == "Buffer"
}

func isBufferType(t types.Type) bool {
	n, ok := t.(*types.Named)
	return ok && n.Obj().Pkg() != nil && n.Obj().Pkg().Path() == "bytes" && n.Obj().Name() == "Buffer"
}

// staticArgType: the static type of an argument that was converted to an interface at the call.
func staticArgType(a ssa.Value) types.Type {
	if mi, ok := a.(*ssa.MakeInterface); ok {
		return mi.X.Type()
	}
	return a.Type()
}

// bufRefArg: the buffer object passed as argument i (peeling the conversion to io.Writer/io.Reader).
func (v *Verifier) bufRefArg(st *State, c *ssa.CallCommon, args []Value, i int) string {
	if mi, ok := c.Args[i].(*ssa.MakeInterface); ok {
		return v.operand(st, mi.X).T
	}
	return refOf(args[i])
}

func refOf(w Value) string {
	if w.Sort == "Val" {
		return app("valref", w.T)
	}
	return w.T
}

type bufView struct {
	ref     string
	r, w, d string // current read position, write position, content array
}

func (v *Verifier) bufNote() {
	v.env.noteMapType(gBufR, types.Typ[types.Int], "field")
	v.env.noteMapType(gBufW, types.Typ[types.Int], "field")
	// G!bufdata is deliberately not registered as a typed map: the range 0..255 of a byte is assumed
	// where a byte is read (binary.Read, Buffer.Read), not for every position a contract mentions
}

func (v *Verifier) bufGet(st *State, ref string) bufView {
	v.bufNote()
	b := bufView{ref: ref}
	b.r = v.env.ctx.resolveSel(v.env.heapGet(st, gBufR, srtII), ref)
	b.w = v.env.ctx.resolveSel(v.env.heapGet(st, gBufW, srtII), ref)
	b.d = v.env.ctx.resolveSel(v.env.heapGet(st, gBufD, srtIII), ref)
	// representation invariant of the model (assumed for every buffer that is read from the heap)
	st.assume(and("(<= 0 "+b.r+")", "(<= "+b.r+" "+b.w+")"))
	return b
}

// named gives a compound position term a name (positions are referred to many times).
func (v *Verifier) named(st *State, hint, t string) string {
	if !strings.HasPrefix(t, "(") {
		return t
	}
	c := v.env.ctx.freshConst(hint, "Int")
	st.assume(eq(c, t))
	return c
}
func (v *Verifier) bufSetR(st *State, ref, r string) {
	v.env.heapSet(st, gBufR, srtII, sto(v.env.heapGet(st, gBufR, srtII), ref, v.named(st, "bufr", r)))
}
func (v *Verifier) bufSetW(st *State, ref, w string) {
	v.env.heapSet(st, gBufW, srtII, sto(v.env.heapGet(st, gBufW, srtII), ref, v.named(st, "bufw", w)))
}
func (v *Verifier) bufSetD(st *State, ref, d string) {
	v.env.heapSet(st, gBufD, srtIII, sto(v.env.heapGet(st, gBufD, srtIII), ref, d))
}

func (v *Verifier) bumpBufver(st *State, ref string) {
	ver := v.env.heapGet(st, "G!bufver", srtII)
	nv := v.env.ctx.freshConst("bufver", "Int")
	v.env.heapSet(st, "G!bufver", srtII, sto(ver, ref, nv))
}

// zeroBuffer: a freshly allocated bytes.Buffer is empty.
func (v *Verifier) zeroBuffer(st *State, ref string) {
	v.bufNote()
	v.bufSetR(st, ref, "0")
	v.bufSetW(st, ref, "0")
}

// fixedWidth returns the encoded size of a fixed-width basic type (0 if unsupported).
func fixedWidth(t types.Type) (n int, signed, isBool bool) {
	b, ok := t.Underlying().(*types.Basic)
	if !ok {
		return 0, false, false
	}
	switch b.Kind() {
	case types.Bool:
		return 1, false, true
	case types.Uint8:
		return 1, false, false
	case types.Int8:
		return 1, true, false
	case types.Uint16:
		return 2, false, false
	case types.Int16:
		return 2, true, false
	case types.Uint32:
		return 4, false, false
	case types.Int32:
		return 4, true, false
	case types.Uint64:
		return 8, false, false
	case types.Int64:
		return 8, true, false
	}
	return 0, false, false
}

func pow256(i int) string {
	return new(big.Int).Exp(big.NewInt(256), big.NewInt(int64(i)), nil).String()
}

// leSum builds sum_i 256^i * byte(i).
func leSum(n int, byteAt func(i int) string) string {
	if n == 1 {
		return byteAt(0)
	}
	s := "(+"
	for i := 0; i < n; i++ {
		if i == 0 {
			s += " " + byteAt(i)
		} else {
			s += " (* " + pow256(i) + " " + byteAt(i) + ")"
		}
	}
	return s + ")"
}

// leBytes introduces the n little-endian bytes of the value val of type t (fresh constants
// constrained by their weighted sum) and returns them.
func (v *Verifier) leBytes(st *State, val Value, n int, signed, isBool bool) []string {
	u := val.T
	if isBool {
		u = ite(val.T, "1", "0")
	} else if signed {
		u = ite("(< "+val.T+" 0)", "(+ "+val.T+" "+pow256(n)+")", val.T)
	}
	if n == 1 {
		c := v.env.ctx.freshConst("le.b", "Int")
		st.assume(eq(c, u))
		return []string{c}
	}
	var bs []string
	for i := 0; i < n; i++ {
		c := v.env.ctx.freshConst("le.b", "Int")
		st.assume("(and (<= 0 " + c + ") (<= " + c + " 255))")
		bs = append(bs, c)
	}
	st.assume(eq(leSum(n, func(i int) string { return bs[i] }), u))
	return bs
}

// leDecode is the value of type t encoded by n bytes.
func leDecode(n int, signed, isBool bool, byteAt func(i int) string) string {
	if isBool {
		return not(eq(byteAt(0), "0"))
	}
	u := leSum(n, byteAt)
	if signed {
		half := new(big.Int).Exp(big.NewInt(2), big.NewInt(int64(8*n-1)), nil).String()
		return ite("(>= "+u+" "+half+")", "(- "+u+" "+pow256(n)+")", u)
	}
	return u
}

// bufAppendBytes appends the contents of the byte slice sl to the buffer.
func (v *Verifier) bufAppendSlice(st *State, b bufView, sl Value) {
	name := elemMapNameT(types.Typ[types.Uint8])
	v.env.noteMapType(name, types.Typ[types.Uint8], "elem")
	E := v.env.heapGet(st, name, srtIII)
	ln := sliceLen(sl.T)
	nd := v.env.ctx.freshConst("bufdata.app", srtII)
	src := sel2(sel2(E, sliceBase(sl.T)), "(+ "+sliceOff(sl.T)+" (- k! "+b.w+"))")
	st.assume("(forall ((k! Int)) (! (= (select " + nd + " k!) (ite (and (<= " + b.w + " k!) (< k! (+ " + b.w + " " + ln + "))) " + src + " (select " + b.d + " k!))) :pattern ((select " + nd + " k!))))")
	v.bufSetD(st, b.ref, nd)
	v.bufSetW(st, b.ref, add(b.w, ln))
}

// bytesOfBuffer: if x is the result of other.Bytes() called immediately before instruction in (same
// block, adjacent), returns other's reference.
func (v *Verifier) bytesOfBuffer(st *State, in ssa.Instruction, x ssa.Value) (string, bool) {
	call, ok := x.(*ssa.Call)
	if !ok || call.Block() != in.Block() {
		return "", false
	}
	key, _ := v.calleeKey(call.Common())
	if key != "bytes.(*Buffer).Bytes" {
		return "", false
	}
	// between the Bytes() call and its use nothing may touch the buffer: no other call gets the
	// buffer (or the slice) as an argument and no bytes/binary function is called
	src := call.Common().Args[0]
	seen := false
	for _, x := range in.Block().Instrs {
		if x == ssa.Instruction(call) {
			seen = true
			continue
		}
		if x == in {
			if seen {
				return v.operand(st, src).T, true
			}
			return "", false
		}
		if !seen {
			continue
		}
		if c2, ok := x.(*ssa.Call); ok {
			k2, _ := v.calleeKey(c2.Common())
			if strings.HasPrefix(k2, "bytes.") || strings.HasPrefix(k2, "binary.") || k2 == "" {
				return "", false
			}
			for _, a := range c2.Common().Args {
				if a == src || a == ssa.Value(call) {
					return "", false
				}
			}
		}
		switch x.(type) {
		case *ssa.Store, *ssa.MapUpdate, *ssa.Go, *ssa.Defer, *ssa.RunDefers:
			return "", false
		}
	}
	return "", false
}

func init() {
	bufMods := func(extra ...string) func(v *Verifier, c *ssa.CallCommon, maps map[string]string) bool {
		return func(v *Verifier, c *ssa.CallCommon, maps map[string]string) bool {
			maps["G!bufver"] = srtII
			maps[gBufR] = srtII
			maps[gBufW] = srtII
			maps[gBufD] = srtIII
			for _, e := range extra {
				maps[e] = srtIII
			}
			return false
		}
	}
	byteMap := elemMapNameT(types.Typ[types.Uint8])
	errT := types.Universe.Lookup("error").Type()
	oldWrite := nativeStubs["binary.Write"]
	oldRead := nativeStubs["binary.Read"]
	oldReadMods := nativeMods["binary.Read"]

	nativeStubs["binary.Write"] = func(v *Verifier, st *State, in ssa.Instruction, c *ssa.CallCommon, args []Value, retT types.Type) Value {
		if !isBufferPtr(staticArgType(c.Args[0])) {
			return oldWrite(v, st, in, c, args, retT)
		}
		ref := v.bufRefArg(st, c, args, 0)
		v.checkSite(st, in, "nil", "(not (= "+ref+" 0))", "binary.Write to a nil *bytes.Buffer")
		v.bumpBufver(st, ref)
		b := v.bufGet(st, ref)
		dt := staticArgType(c.Args[2])
		mi, isMI := c.Args[2].(*ssa.MakeInterface)
		if n, signed, isBool := fixedWidth(dt); n > 0 && isMI {
			val := v.operand(st, mi.X)
			bs := v.leBytes(st, val, n, signed, isBool)
			d := b.d
			for i, x := range bs {
				d = sto(d, add(b.w, intLit(int64(i))), x)
			}
			v.bufSetD(st, ref, d)
			v.bufSetW(st, ref, add(b.w, intLit(int64(n))))
			return Value{T: "VNil", Sort: "Val", GoT: errT}
		}
		if sl, ok := dt.Underlying().(*types.Slice); ok && isMI {
			if eb, ok := sl.Elem().Underlying().(*types.Basic); ok && eb.Kind() == types.Uint8 {
				v.bufAppendSlice(st, b, v.operand(st, mi.X))
				return Value{T: "VNil", Sort: "Val", GoT: errT}
			}
		}
		// a value this model has no layout for: the buffer grows by an unknown amount
		v.notes = append(v.notes, fmt.Sprintf("binary.Write of %s at %s: content not modelled", typeName(dt), v.posOf(in)))
		nw := v.env.ctx.freshConst("bufw.unk", "Int")
		st.assume("(>= " + nw + " " + b.w + ")")
		v.bufSetD(st, ref, v.env.ctx.freshConst("bufdata.unk", srtII))
		v.bufSetW(st, ref, nw)
		r := v.freshValue(st, "ret.io", retT)
		v.assumeTypeFacts(st, r)
		return r
	}
	nativeMods["binary.Write"] = bufMods()

	nativeStubs["binary.Read"] = func(v *Verifier, st *State, in ssa.Instruction, c *ssa.CallCommon, args []Value, retT types.Type) Value {
		if !isBufferPtr(staticArgType(c.Args[0])) {
			return oldRead(v, st, in, c, args, retT)
		}
		mi, ok := c.Args[2].(*ssa.MakeInterface)
		if !ok {
			v.unsupportedf("binary.Read into a value that is not a pointer literal at %s", v.posOf(in))
		}
		pt, ok := mi.X.Type().Underlying().(*types.Pointer)
		if !ok {
			v.unsupportedf("binary.Read into a non-pointer at %s", v.posOf(in))
		}
		n, signed, isBool := fixedWidth(pt.Elem())
		if n == 0 {
			return oldRead(v, st, in, c, args, retT)
		}
		ref := v.bufRefArg(st, c, args, 0)
		v.checkSite(st, in, "nil", "(not (= "+ref+" 0))", "binary.Read from a nil *bytes.Buffer")
		v.bumpBufver(st, ref)
		b := v.bufGet(st, ref)
		p := v.operand(st, mi.X)
		okc := "(>= (- " + b.w + " " + b.r + ") " + intLit(int64(n)) + ")"
		byteAt := func(i int) string { return sel2(b.d, add(b.r, intLit(int64(i)))) }
		for i := 0; i < n; i++ {
			st.assume("(and (<= 0 " + byteAt(i) + ") (<= " + byteAt(i) + " 255))")
		}
		dec := leDecode(n, signed, isBool, byteAt)
		old := v.loadAddr(st, p, in)
		srt := v.env.sr.sortOf(pt.Elem())
		nv := Value{T: ite(okc, dec, old.T), Sort: srt, GoT: pt.Elem()}
		// name the value (keeps terms small)
		cst := v.env.ctx.freshConst("read", srt)
		st.assume(eq(cst, nv.T))
		nv.T = cst
		v.storeAddr(st, p, nv, in)
		v.bufSetR(st, ref, ite(okc, add(b.r, intLit(int64(n))), b.w))
		e := v.env.freshErr(st)
		return Value{T: ite(okc, "VNil", e.T), Sort: "Val", GoT: errT}
	}
	nativeMods["binary.Read"] = func(v *Verifier, c *ssa.CallCommon, maps map[string]string) bool {
		maps[gBufR] = srtII
		return oldReadMods(v, c, maps)
	}

	nativeStubs["bytes.(*Buffer).Write"] = func(v *Verifier, st *State, in ssa.Instruction, c *ssa.CallCommon, args []Value, retT types.Type) Value {
		ref := refOf(args[0])
		v.checkSite(st, in, "nil", "(not (= "+ref+" 0))", "Write on a nil *bytes.Buffer")
		v.bumpBufver(st, ref)
		b := v.bufGet(st, ref)
		if src, ok := v.bytesOfBuffer(st, in, c.Args[1]); ok && src != ref {
			// buf.Write(other.Bytes()) with the two calls adjacent: append other's unread bytes
			// directly (the composition of the two definitions, one quantifier hop less)
			o := v.bufGet(st, src)
			ln := sub(o.w, o.r)
			nd := v.env.ctx.freshConst("bufdata.app", srtII)
			from := sel2(o.d, "(+ "+o.r+" (- k! "+b.w+"))")
			st.assume("(forall ((k! Int)) (! (= (select " + nd + " k!) (ite (and (<= " + b.w + " k!) (< k! (+ " + b.w + " " + ln + "))) " + from + " (select " + b.d + " k!))) :pattern ((select " + nd + " k!))))")
			v.bufSetD(st, ref, nd)
			v.bufSetW(st, ref, add(b.w, ln))
		} else {
			v.bufAppendSlice(st, b, args[1])
		}
		tup := retT.(*types.Tuple)
		return Value{Tuple: []Value{{T: sliceLen(args[1].T), Sort: "Int", GoT: tup.At(0).Type()}, {T: "VNil", Sort: "Val", GoT: tup.At(1).Type()}}, GoT: retT}
	}
	nativeMods["bytes.(*Buffer).Write"] = bufMods()

	nativeStubs["bytes.(*Buffer).Read"] = func(v *Verifier, st *State, in ssa.Instruction, c *ssa.CallCommon, args []Value, retT types.Type) Value {
		ref := refOf(args[0])
		v.checkSite(st, in, "nil", "(not (= "+ref+" 0))", "Read on a nil *bytes.Buffer")
		v.bumpBufver(st, ref)
		b := v.bufGet(st, ref)
		dst := args[1]
		avail := sub(b.w, b.r)
		want := sliceLen(dst.T)
		n := v.env.ctx.freshConst("buf.n", "Int")
		st.assume(eq(n, ite("(< "+avail+" "+want+")", avail, want)))
		v.env.noteMapType(byteMap, types.Typ[types.Uint8], "elem")
		E := v.env.heapGet(st, byteMap, srtIII)
		na := v.env.ctx.freshConst("readbytes", srtII)
		off := sliceOff(dst.T)
		src := sel2(b.d, "(+ "+b.r+" (- k! "+off+"))")
		st.assume("(forall ((k! Int)) (! (= (select " + na + " k!) (ite (and (<= " + off + " k!) (< k! (+ " + off + " " + n + "))) " + src + " (select (select " + E + " " + sliceBase(dst.T) + ") k!))) :pattern ((select " + na + " k!))))")
		v.env.heapSet(st, byteMap, srtIII, sto(E, sliceBase(dst.T), na))
		v.bufSetR(st, ref, add(b.r, n))
		ioPkg := v.prog.typPkgs["io"]
		eof := v.env.globalValue(st, "io", ioPkg.Scope().Lookup("EOF").(*types.Var))
		tup := retT.(*types.Tuple)
		errV := ite(and(eq(avail, "0"), "(> "+want+" 0)"), eof.T, "VNil")
		return Value{Tuple: []Value{{T: n, Sort: "Int", GoT: tup.At(0).Type()}, {T: errV, Sort: "Val", GoT: tup.At(1).Type()}}, GoT: retT}
	}
	readMods := func(v *Verifier, c *ssa.CallCommon, maps map[string]string) bool {
		// reading moves the read position only (and fills the destination)
		maps["G!bufver"] = srtII
		maps[gBufR] = srtII
		maps[byteMap] = srtIII
		return false
	}
	nativeMods["bytes.(*Buffer).Read"] = readMods

	nativeStubs["bytes.(*Buffer).Next"] = func(v *Verifier, st *State, in ssa.Instruction, c *ssa.CallCommon, args []Value, retT types.Type) Value {
		ref := refOf(args[0])
		v.checkSite(st, in, "nil", "(not (= "+ref+" 0))", "Next on a nil *bytes.Buffer")
		v.checkSite(st, in, "slice", "(>= "+args[1].T+" 0)", "Buffer.Next with a negative count")
		v.bumpBufver(st, ref)
		b := v.bufGet(st, ref)
		avail := sub(b.w, b.r)
		n := v.env.ctx.freshConst("buf.n", "Int")
		st.assume(eq(n, ite("(< "+avail+" "+args[1].T+")", avail, args[1].T)))
		// the returned slice is a copy of the skipped bytes
		nb := v.env.allocRef(st, "next")
		v.env.noteMapType(byteMap, types.Typ[types.Uint8], "elem")
		E := v.env.heapGet(st, byteMap, srtIII)
		na := v.env.ctx.freshConst("nextbytes", srtII)
		st.assume("(forall ((k! Int)) (! (=> (and (<= 0 k!) (< k! " + n + ")) (= (select " + na + " k!) (select " + b.d + " (+ " + b.r + " k!)))) :pattern ((select " + na + " k!))))")
		v.env.heapSet(st, byteMap, srtIII, sto(E, nb, na))
		v.bufSetR(st, ref, add(b.r, n))
		return Value{T: mkSlice(nb, "0", n, n), Sort: "Slice", GoT: retT}
	}
	nativeMods["bytes.(*Buffer).Next"] = readMods

	// Reset empties the buffer: in the absolute-position model the read position jumps to the write position.
	nativeStubs["bytes.(*Buffer).Reset"] = func(v *Verifier, st *State, in ssa.Instruction, c *ssa.CallCommon, args []Value, retT types.Type) Value {
		ref := refOf(args[0])
		v.checkSite(st, in, "nil", "(not (= "+ref+" 0))", "Reset on a nil *bytes.Buffer")
		v.bumpBufver(st, ref)
		b := v.bufGet(st, ref)
		v.bufSetR(st, ref, b.w)
		return Value{}
	}
	nativeMods["bytes.(*Buffer).Reset"] = readMods

	nativeStubs["bytes.(*Buffer).Len"] = func(v *Verifier, st *State, in ssa.Instruction, c *ssa.CallCommon, args []Value, retT types.Type) Value {
		ref := refOf(args[0])
		v.checkSite(st, in, "nil", "(not (= "+ref+" 0))", "Len on a nil *bytes.Buffer")
		b := v.bufGet(st, ref)
		return Value{T: sub(b.w, b.r), Sort: "Int", GoT: retT}
	}
	nativeMods["bytes.(*Buffer).Len"] = pureMods

	nativeStubs["bytes.(*Buffer).Bytes"] = func(v *Verifier, st *State, in ssa.Instruction, c *ssa.CallCommon, args []Value, retT types.Type) Value {
		ref := refOf(args[0])
		v.checkSite(st, in, "nil", "(not (= "+ref+" 0))", "Bytes on a nil *bytes.Buffer")
		b := v.bufGet(st, ref)
		// as before: the same slice for the same buffer version; now with its length and contents
		ver := v.env.heapGet(st, "G!bufver", srtII)
		v.env.ctx.declFun("buf.bytes", []string{"Int", "Int"}, "Slice")
		r := Value{T: app("buf.bytes", ref, sel2(ver, ref)), Sort: "Slice", GoT: retT}
		st.assume(sliceWF(r.T))
		st.assume(eq(sliceLen(r.T), sub(b.w, b.r)))
		v.env.noteMapType(byteMap, types.Typ[types.Uint8], "elem")
		E := v.env.heapGet(st, byteMap, srtIII)
		arrT := sel2(E, sliceBase(r.T))
		st.assume("(forall ((k! Int)) (! (=> (and (<= 0 k!) (< k! (- " + b.w + " " + b.r + "))) (= (select " + arrT + " (+ " + sliceOff(r.T) + " k!)) (select " + b.d + " (+ " + b.r + " k!)))) :pattern ((select " + arrT + " (+ " + sliceOff(r.T) + " k!)))))")
		return r
	}
	nativeMods["bytes.(*Buffer).Bytes"] = pureMods

	nativeStubs["bytes.NewBuffer"] = func(v *Verifier, st *State, in ssa.Instruction, c *ssa.CallCommon, args []Value, retT types.Type) Value {
		r := v.env.allocRef(st, "buffer")
		v.env.ctx.declFun("buf.init", []string{"Int"}, "Slice")
		st.assume(eq(app("buf.init", r), args[0].T))
		v.bufNote()
		sl := args[0]
		v.env.noteMapType(byteMap, types.Typ[types.Uint8], "elem")
		E := v.env.heapGet(st, byteMap, srtIII)
		nd := v.env.ctx.freshConst("bufdata.new", srtII)
		ln := sliceLen(sl.T)
		st.assume("(forall ((k! Int)) (! (=> (and (<= 0 k!) (< k! " + ln + ")) (= (select " + nd + " k!) (select " + v.env.ctx.resolveSel(E, sliceBase(sl.T)) + " (+ " + sliceOff(sl.T) + " k!)))) :pattern ((select " + nd + " k!))))")
		v.bufSetD(st, r, nd)
		v.bufSetR(st, r, "0")
		v.bufSetW(st, r, ln)
		return Value{T: r, Sort: "Int", GoT: retT}
	}
	nativeMods["bytes.NewBuffer"] = func(v *Verifier, c *ssa.CallCommon, maps map[string]string) bool {
		// only the fresh buffer object is written
		maps[gBufR] = srtII
		maps[gBufW] = srtII
		maps[gBufD] = srtIII
		return false
	}
}

const (
	gFData = "G!fdata"
	gFSize = "G!fsize"
	gFPos  = "G!fpos"
)

func isOSFilePtr(t types.Type) bool {
	p, ok := t.Underlying().(*types.Pointer)
	if !ok {
		return false
	}
	n, ok := p.Elem().(*types.Named)
	return ok && n.Obj().Pkg() != nil && n.Obj().Pkg().Path() == "os" && n.Obj().Name() == "File"
}

type fileView struct {
	ref        string
	d, sz, pos string
}

func (v *Verifier) fileGet(st *State, ref string) fileView {
	v.env.noteMapType(gFSize, types.Typ[types.Int], "field")
	v.env.noteMapType(gFPos, types.Typ[types.Int], "field")
	f := fileView{ref: ref}
	f.d = v.env.ctx.resolveSel(v.env.heapGet(st, gFData, srtIII), ref)
	f.sz = v.env.ctx.resolveSel(v.env.heapGet(st, gFSize, srtII), ref)
	f.pos = v.env.ctx.resolveSel(v.env.heapGet(st, gFPos, srtII), ref)
	st.assume(and("(<= 0 "+f.sz+")", "(<= 0 "+f.pos+")"))
	return f
}

func (v *Verifier) fileSet(st *State, name, srt, ref, val string) {
	v.env.heapSet(st, name, srt, sto(v.env.heapGet(st, name, srt), ref, val))
}

func init() {
	byteMap := elemMapNameT(types.Typ[types.Uint8])
	errT := types.Universe.Lookup("error").Type()
	fileMods := func(extra ...string) func(v *Verifier, c *ssa.CallCommon, maps map[string]string) bool {
		return func(v *Verifier, c *ssa.CallCommon, maps map[string]string) bool {
			for _, e := range extra {
				switch e {
				case gFData, byteMap:
					maps[e] = srtIII
				default:
					maps[e] = srtII
				}
			}
			return false
		}
	}
	nativeStubs["os.(*File).WriteAt"] = func(v *Verifier, st *State, in ssa.Instruction, c *ssa.CallCommon, args []Value, retT types.Type) Value {
		ref := args[0].T
		v.checkSite(st, in, "nil", "(not (= "+ref+" 0))", "WriteAt on a nil *os.File")
		f := v.fileGet(st, ref)
		p, off := args[1], args[2].T
		v.checkSite(st, in, "explicit", "(>= "+off+" 0)", "WriteAt with a negative offset (returns an error; treated as a defect)")
		ln := sliceLen(p.T)
		fail := v.env.ctx.freshConst("io.fail", "Bool")
		v.env.noteMapType(byteMap, types.Typ[types.Uint8], "elem")
		E := v.env.heapGet(st, byteMap, srtIII)
		nd := v.env.ctx.freshConst("fdata.w", srtII)
		unk := v.env.ctx.freshConst("fdata.unk", srtII)
		src := sel2(sel2(E, sliceBase(p.T)), "(+ "+sliceOff(p.T)+" (- k! "+off+"))")
		if bref, ok := v.bytesOfBuffer(st, in, c.Args[1]); ok {
			// file.WriteAt(buf.Bytes(), off): the bytes come straight from the buffer
			ob := v.bufGet(st, bref)
			src = sel2(ob.d, "(+ "+ob.r+" (- k! "+off+"))")
		}
		st.assume("(forall ((k! Int)) (! (= (select " + nd + " k!) (ite (and (<= " + off + " k!) (< k! (+ " + off + " " + ln + "))) (ite " + fail + " (select " + unk + " k!) " + src + ") (select " + f.d + " k!))) :pattern ((select " + nd + " k!))))")
		v.fileSet(st, gFData, srtIII, ref, nd)
		nsz := v.env.ctx.freshConst("fsize", "Int")
		end := "(+ " + off + " " + ln + ")"
		st.assume(ite(fail, "(>= "+nsz+" 0)", eq(nsz, ite("(> "+end+" "+f.sz+")", end, f.sz))))
		v.fileSet(st, gFSize, srtII, ref, nsz)
		e := v.env.freshErr(st)
		n := v.env.ctx.freshConst("io.n", "Int")
		st.assume("(and (<= 0 " + n + ") (<= " + n + " " + ln + "))")
		tup := retT.(*types.Tuple)
		return Value{Tuple: []Value{{T: ite(fail, n, ln), Sort: "Int", GoT: tup.At(0).Type()}, {T: ite(fail, e.T, "VNil"), Sort: "Val", GoT: errT}}, GoT: retT}
	}
	nativeMods["os.(*File).WriteAt"] = fileMods(gFData, gFSize)

	nativeStubs["os.(*File).ReadAt"] = func(v *Verifier, st *State, in ssa.Instruction, c *ssa.CallCommon, args []Value, retT types.Type) Value {
		ref := args[0].T
		v.checkSite(st, in, "nil", "(not (= "+ref+" 0))", "ReadAt on a nil *os.File")
		f := v.fileGet(st, ref)
		p, off := args[1], args[2].T
		want := sliceLen(p.T)
		fail := v.env.ctx.freshConst("io.fail", "Bool")
		avail := v.env.ctx.freshConst("io.avail", "Int")
		st.assume(eq(avail, ite("(> "+f.sz+" "+off+")", "(- "+f.sz+" "+off+")", "0")))
		n := v.env.ctx.freshConst("io.n", "Int")
		st.assume(ite(fail, and("(<= 0 "+n+")", "(<= "+n+" "+want+")"), eq(n, ite("(< "+avail+" "+want+")", avail, want))))
		v.env.noteMapType(byteMap, types.Typ[types.Uint8], "elem")
		E := v.env.heapGet(st, byteMap, srtIII)
		na := v.env.ctx.freshConst("readbytes", srtII)
		unk := v.env.ctx.freshConst("readbytes.unk", srtII)
		so := sliceOff(p.T)
		src := sel2(f.d, "(+ "+off+" (- k! "+so+"))")
		old := sel2(sel2(E, sliceBase(p.T)), "k!")
		st.assume("(forall ((k! Int)) (! (= (select " + na + " k!) (ite (and (<= " + so + " k!) (< k! (+ " + so + " " + want + "))) (ite " + fail + " (select " + unk + " k!) (ite (< k! (+ " + so + " " + n + ")) " + src + " " + old + ")) " + old + ")) :pattern ((select " + na + " k!))))")
		st.assume("(forall ((k! Int)) (! (and (<= 0 (select " + unk + " k!)) (<= (select " + unk + " k!) 255)) :pattern ((select " + unk + " k!))))")
		v.env.heapSet(st, byteMap, srtIII, sto(E, sliceBase(p.T), na))
		ioPkg := v.prog.typPkgs["io"]
		eof := v.env.globalValue(st, "io", ioPkg.Scope().Lookup("EOF").(*types.Var))
		e := v.env.freshErr(st)
		tup := retT.(*types.Tuple)
		errV := ite(fail, e.T, ite("(< "+n+" "+want+")", eof.T, "VNil"))
		return Value{Tuple: []Value{{T: n, Sort: "Int", GoT: tup.At(0).Type()}, {T: errV, Sort: "Val", GoT: errT}}, GoT: retT}
	}
	nativeMods["os.(*File).ReadAt"] = fileMods(byteMap)

	// binary.Read from an *os.File: a sequential read of a fixed-width value at fpos
	oldRead := nativeStubs["binary.Read"]
	oldReadMods := nativeMods["binary.Read"]
	nativeStubs["binary.Read"] = func(v *Verifier, st *State, in ssa.Instruction, c *ssa.CallCommon, args []Value, retT types.Type) Value {
		if !isOSFilePtr(staticArgType(c.Args[0])) {
			return oldRead(v, st, in, c, args, retT)
		}
		mi, ok := c.Args[2].(*ssa.MakeInterface)
		if !ok {
			return oldRead(v, st, in, c, args, retT)
		}
		pt, ok := mi.X.Type().Underlying().(*types.Pointer)
		if !ok {
			return oldRead(v, st, in, c, args, retT)
		}
		n, signed, isBool := fixedWidth(pt.Elem())
		if n == 0 {
			return oldRead(v, st, in, c, args, retT)
		}
		ref := v.bufRefArg(st, c, args, 0)
		v.checkSite(st, in, "nil", "(not (= "+ref+" 0))", "binary.Read from a nil *os.File")
		f := v.fileGet(st, ref)
		p := v.operand(st, mi.X)
		fail := v.env.ctx.freshConst("io.fail", "Bool")
		okc := and(not(fail), "(>= (- "+f.sz+" "+f.pos+") "+intLit(int64(n))+")")
		byteAt := func(i int) string { return sel2(f.d, add(f.pos, intLit(int64(i)))) }
		for i := 0; i < n; i++ {
			st.assume("(and (<= 0 " + byteAt(i) + ") (<= " + byteAt(i) + " 255))")
		}
		old := v.loadAddr(st, p, in)
		srt := v.env.sr.sortOf(pt.Elem())
		cst := v.env.ctx.freshConst("read", srt)
		st.assume(eq(cst, ite(okc, leDecode(n, signed, isBool, byteAt), old.T)))
		v.storeAddr(st, p, Value{T: cst, Sort: srt, GoT: pt.Elem()}, in)
		np := v.env.ctx.freshConst("fpos", "Int")
		st.assume(ite(okc, eq(np, add(f.pos, intLit(int64(n)))), "(>= "+np+" "+f.pos+")"))
		v.fileSet(st, gFPos, srtII, ref, np)
		e := v.env.freshErr(st)
		return Value{T: ite(okc, "VNil", e.T), Sort: "Val", GoT: errT}
	}
	nativeMods["binary.Read"] = func(v *Verifier, c *ssa.CallCommon, maps map[string]string) bool {
		if isOSFilePtr(staticArgType(c.Args[0])) {
			maps[gFPos] = srtII
			if mi, ok := c.Args[2].(*ssa.MakeInterface); ok {
				if pt, ok := mi.X.Type().Underlying().(*types.Pointer); ok {
					v.storeTargets(mi.X, pt.Elem(), maps)
					return false
				}
			}
			return true
		}
		return oldReadMods(v, c, maps)
	}
}

// Byte-level model of sequential readers (bufio.Reader over the log file): per reader object r
//
//	rdata(r, i)   the i-th byte of the stream
//	rpos(r)       bytes consumed so far
//	rend(r)       total length of the stream (rend - rpos bytes remain)
//
// bufio.NewReader(u) is a fresh reader over what u has left. io.ReadFull(r, p) fills p completely
// when len(p) bytes remain, returns (0, io.EOF) at the end, (remaining, io.ErrUnexpectedEOF) when
// fewer remain, or fails with an arbitrary I/O error. binary.LittleEndian.Uint32 / PutUint32 are
// the little-endian value of / store into the first four bytes of a slice.
const (
	gRData = "G!rdata"
	gRPos  = "G!rpos"
	gREnd  = "G!rend"
)

func init() {
	byteMap := elemMapNameT(types.Typ[types.Uint8])
	get := func(v *Verifier, st *State, ref string) (d, pos, end string) {
		v.env.noteMapType(gRPos, types.Typ[types.Int], "field")
		v.env.noteMapType(gREnd, types.Typ[types.Int], "field")
		d = v.env.ctx.resolveSel(v.env.heapGet(st, gRData, srtIII), ref)
		pos = v.env.ctx.resolveSel(v.env.heapGet(st, gRPos, srtII), ref)
		end = v.env.ctx.resolveSel(v.env.heapGet(st, gREnd, srtII), ref)
		st.assume(and("(<= 0 "+pos+")", "(<= "+pos+" "+end+")"))
		return
	}
	nativeStubs["bufio.NewReader"] = func(v *Verifier, st *State, in ssa.Instruction, c *ssa.CallCommon, args []Value, retT types.Type) Value {
		u := refOf(args[0])
		ud, upos, uend := get(v, st, u)
		r := v.env.allocRef(st, "reader")
		nd := v.env.ctx.freshConst("rdata.new", srtII)
		st.assume("(forall ((k! Int)) (! (= (select " + nd + " k!) (select " + ud + " (+ " + upos + " k!))) :pattern ((select " + nd + " k!))))")
		v.fileSet(st, gRData, srtIII, r, nd)
		v.fileSet(st, gRPos, srtII, r, "0")
		v.fileSet(st, gREnd, srtII, r, v.named(st, "rend", sub(uend, upos)))
		return Value{T: r, Sort: "Int", GoT: retT}
	}
	nativeMods["bufio.NewReader"] = func(v *Verifier, c *ssa.CallCommon, maps map[string]string) bool {
		maps[gRData] = srtIII
		maps[gRPos] = srtII
		maps[gREnd] = srtII
		return false
	}
	nativeStubs["io.ReadFull"] = func(v *Verifier, st *State, in ssa.Instruction, c *ssa.CallCommon, args []Value, retT types.Type) Value {
		ref := v.bufRefArg(st, c, args, 0)
		d, pos, end := get(v, st, ref)
		// the older ghost count of remaining bytes stays in step (contracts may still mention it)
		remMap := v.env.heapGet(st, "G!ioRemaining", srtII)
		p := args[1]
		want := sliceLen(p.T)
		rem := v.named(st, "io.rem", sub(end, pos))
		ioPkg := v.prog.typPkgs["io"]
		eof := v.env.globalValue(st, "io", ioPkg.Scope().Lookup("EOF").(*types.Var))
		ueof := v.env.globalValue(st, "io", ioPkg.Scope().Lookup("ErrUnexpectedEOF").(*types.Var))
		other := v.env.freshErr(st)
		fail := v.env.ctx.freshConst("io.fail", "Bool")
		n := v.env.ctx.freshConst("io.n", "Int")
		st.assume(ite(fail, and("(<= 0 "+n+")", "(<= "+n+" "+want+")"), eq(n, ite("(< "+rem+" "+want+")", rem, want))))
		errT := ite(fail, other.T, ite(eq(want, "0"), "VNil", ite(eq(rem, "0"), eof.T, ite("(< "+rem+" "+want+")", ueof.T, "VNil"))))
		npos := v.env.ctx.freshConst("rpos", "Int")
		st.assume(ite(fail, and("(>= "+npos+" "+pos+")", "(<= "+npos+" "+end+")"), eq(npos, add(pos, n))))
		v.fileSet(st, gRPos, srtII, ref, npos)
		v.env.heapSet(st, "G!ioRemaining", srtII, sto(remMap, ref, v.named(st, "io.left", sub(end, npos))))
		v.env.noteMapType(byteMap, types.Typ[types.Uint8], "elem")
		E := v.env.heapGet(st, byteMap, srtIII)
		na := v.env.ctx.freshConst("readbytes", srtII)
		unk := v.env.ctx.freshConst("readbytes.unk", srtII)
		so := sliceOff(p.T)
		src := sel2(d, "(+ "+pos+" (- k! "+so+"))")
		old := sel2(sel2(E, sliceBase(p.T)), "k!")
		st.assume("(forall ((k! Int)) (! (= (select " + na + " k!) (ite (and (<= " + so + " k!) (< k! (+ " + so + " " + want + "))) (ite " + fail + " (select " + unk + " k!) (ite (< k! (+ " + so + " " + n + ")) " + src + " " + old + ")) " + old + ")) :pattern ((select " + na + " k!))))")
		st.assume("(forall ((k! Int)) (! (and (<= 0 (select " + unk + " k!)) (<= (select " + unk + " k!) 255)) :pattern ((select " + unk + " k!))))")
		v.env.heapSet(st, byteMap, srtIII, sto(E, sliceBase(p.T), na))
		tup := retT.(*types.Tuple)
		return Value{Tuple: []Value{{T: n, Sort: "Int", GoT: tup.At(0).Type()}, {T: errT, Sort: "Val", GoT: tup.At(1).Type()}}, GoT: retT}
	}
	nativeMods["io.ReadFull"] = func(v *Verifier, c *ssa.CallCommon, maps map[string]string) bool {
		maps["G!ioRemaining"] = srtII
		maps[gRPos] = srtII
		maps[byteMap] = srtIII
		return false
	}
	nativeStubs["binary.(littleEndian).Uint32"] = func(v *Verifier, st *State, in ssa.Instruction, c *ssa.CallCommon, args []Value, retT types.Type) Value {
		b := args[len(args)-1]
		v.checkSite(st, in, "index", "(>= "+sliceLen(b.T)+" 4)", "Uint32 on a slice shorter than 4 bytes")
		v.env.noteMapType(byteMap, types.Typ[types.Uint8], "elem")
		E := v.env.heapGet(st, byteMap, srtIII)
		arrT := v.env.ctx.resolveSel(E, sliceBase(b.T))
		byteAt := func(i int) string { return sel2(arrT, add(sliceOff(b.T), intLit(int64(i)))) }
		for i := 0; i < 4; i++ {
			st.assume("(and (<= 0 " + byteAt(i) + ") (<= " + byteAt(i) + " 255))")
		}
		r := v.env.ctx.freshConst("le.u32", "Int")
		st.assume(eq(r, leSum(4, byteAt)))
		return Value{T: r, Sort: "Int", GoT: retT}
	}
	nativeStubs["binary.(littleEndian).PutUint32"] = func(v *Verifier, st *State, in ssa.Instruction, c *ssa.CallCommon, args []Value, retT types.Type) Value {
		dst := args[len(args)-2]
		val := args[len(args)-1]
		v.checkSite(st, in, "index", "(>= "+sliceLen(dst.T)+" 4)", "PutUint32 on a slice shorter than 4 bytes")
		bs := v.leBytes(st, val, 4, false, false)
		v.env.noteMapType(byteMap, types.Typ[types.Uint8], "elem")
		E := v.env.heapGet(st, byteMap, srtIII)
		inner := sel2(E, sliceBase(dst.T))
		for i, x := range bs {
			inner = sto(inner, add(sliceOff(dst.T), intLit(int64(i))), x)
		}
		v.env.heapSet(st, byteMap, srtIII, sto(E, sliceBase(dst.T), inner))
		return Value{}
	}
}
