package main

// Ground instantiation of universally quantified hypotheses and skolemisation of goals.
// Sound: an instance of a universally quantified assumption is implied by it; replacing a
// positive universal quantifier in the goal by a fresh constant preserves validity.

import (
	"fmt"
	"os"
	"sort"
	"strings"
)

type sx struct {
	atom string
	list []*sx
}

func (s *sx) isAtom() bool { return s.list == nil && s.atom != "" }

func (s *sx) String() string {
	if s.list == nil {
		return s.atom
	}
	var b strings.Builder
	s.write(&b)
	return b.String()
}

func (s *sx) write(b *strings.Builder) {
	if s.list == nil {
		b.WriteString(s.atom)
		return
	}
	b.WriteByte('(')
	for i, c := range s.list {
		if i > 0 {
			b.WriteByte(' ')
		}
		c.write(b)
	}
	b.WriteByte(')')
}

func parseSx(src string) (*sx, error) {
	pos := 0
	var parse func() (*sx, error)
	skip := func() {
		for pos < len(src) && (src[pos] == ' ' || src[pos] == '\n' || src[pos] == '\t') {
			pos++
		}
	}
	parse = func() (*sx, error) {
		skip()
		if pos >= len(src) {
			return nil, fmt.Errorf("unexpected end")
		}
		if src[pos] == '(' {
			pos++
			n := &sx{list: []*sx{}}
			for {
				skip()
				if pos >= len(src) {
					return nil, fmt.Errorf("unbalanced")
				}
				if src[pos] == ')' {
					pos++
					return n, nil
				}
				c, err := parse()
				if err != nil {
					return nil, err
				}
				n.list = append(n.list, c)
			}
		}
		start := pos
		if src[pos] == '|' {
			pos++
			for pos < len(src) && src[pos] != '|' {
				pos++
			}
			pos++
			return &sx{atom: src[start:pos]}, nil
		}
		for pos < len(src) && src[pos] != ' ' && src[pos] != '(' && src[pos] != ')' && src[pos] != '\n' && src[pos] != '\t' {
			pos++
		}
		return &sx{atom: src[start:pos]}, nil
	}
	n, err := parse()
	if err != nil {
		return nil, err
	}
	return n, nil
}

func (s *sx) head() string {
	if s.list != nil && len(s.list) > 0 && s.list[0].isAtom() {
		return s.list[0].atom
	}
	return ""
}

func substSx(s *sx, m map[string]string) *sx {
	if s.list == nil {
		if r, ok := m[s.atom]; ok {
			return &sx{atom: r}
		}
		return s
	}
	n := &sx{list: make([]*sx, len(s.list))}
	for i, c := range s.list {
		n.list[i] = substSx(c, m)
	}
	return n
}

// canonSx renders f with its bound variables renamed in order of appearance, so that two
// evaluations of the same contract formula (which differ only in binder numbering) compare equal.
func canonSx(f *sx) string {
	ren := map[string]string{}
	var walk func(f *sx) *sx
	walk = func(f *sx) *sx {
		if f.list == nil {
			if r, ok := ren[f.atom]; ok {
				return &sx{atom: r}
			}
			return f
		}
		if h := f.head(); (h == "forall" || h == "exists") && len(f.list) == 3 {
			for _, b := range f.list[1].list {
				if len(b.list) == 2 && b.list[0].isAtom() {
					ren[b.list[0].atom] = fmt.Sprintf("#b%d", len(ren))
				}
			}
		}
		n := &sx{list: make([]*sx, len(f.list))}
		for i, c := range f.list {
			n.list[i] = walk(c)
		}
		return n
	}
	return walk(f).String()
}

// modusPonens replaces every hypothesis (=> P C) whose antecedent P (or each conjunct of P) is
// itself among the hypotheses, up to renaming of bound variables, by C. Sound (modus ponens).
func modusPonens(pc []string) []string {
	known := map[string]bool{}
	var note func(t *sx)
	note = func(t *sx) {
		known[canonSx(t)] = true
		if t.head() == "and" {
			for _, c := range t.list[1:] {
				note(c)
			}
		}
	}
	any := false
	for _, p := range pc {
		if strings.Contains(p, "(forall ") && strings.Contains(p, "(=> ") {
			any = true // only implications with quantified antecedents are worth the trouble
		}
	}
	if !any {
		return pc
	}
	// split top-level conjunctions that contain such implications into their conjuncts
	var flat []string
	for _, p := range pc {
		if strings.HasPrefix(p, "(and ") && strings.Contains(p, "(forall ") && strings.Contains(p, "(=> ") && len(p) <= 20000 {
			if t, err := parseSx(p); err == nil && t.head() == "and" {
				for _, c := range t.list[1:] {
					flat = append(flat, c.String())
				}
				continue
			}
		}
		flat = append(flat, p)
	}
	pc = flat
	parsed := make([]*sx, len(pc))
	for i, p := range pc {
		if len(p) > 20000 {
			continue
		}
		if t, err := parseSx(p); err == nil {
			if t.head() == "=>" && strings.Contains(p, "(forall ") {
				parsed[i] = t
			} else {
				note(t) // quantifier-free facts count as known conjuncts of an antecedent as well
			}
		}
	}
	var holds func(t *sx) bool
	holds = func(t *sx) bool {
		if known[canonSx(t)] {
			return true
		}
		if t.head() == "and" {
			for _, c := range t.list[1:] {
				if !holds(c) {
					return false
				}
			}
			return true
		}
		return false
	}
	out := append([]string(nil), pc...)
	for round := 0; round < 3; round++ {
		changed := false
		for i, t := range parsed {
			for t != nil && t.head() == "=>" && len(t.list) == 3 && containsQuant(t.list[1]) && holds(t.list[1]) {
				if envInt("GOVC_MP_DEBUG", 0) == 1 {
					fmt.Fprintf(os.Stderr, "MP: antecedent %.300s\n   consequent %.300s\n", t.list[1].String(), t.list[2].String())
				}
				t = t.list[2]
				parsed[i] = t
				out[i] = t.String()
				note(t)
				changed = true
			}
		}
		if !changed {
			break
		}
	}
	return out
}

// stripBang removes (! body :pattern ...) annotations.
func stripBang(s *sx) *sx {
	if s.head() == "!" && len(s.list) >= 2 {
		return s.list[1]
	}
	return s
}

type instantiator struct {
	cands    []string
	out      []string
	limit    int
	seen     map[string]bool
	newDecl  []string
	fresh    *int
	max2     int
	lens     []string
	prime    []string // skolem constants (goal and hypotheses): first in the candidate order
	variants []string // skolem +-1, skolem - length: last in the candidate order
	refCands []string // object references (for binders over pointers)
	refPrime []string // skolem constants of object binders
	nest     int
	trig     bool           // the instance being emitted comes from a trigger (not from blind enumeration)
	trigOut  []string       // trigger-generated instances (their abstract-function terms become triggers in turn)
	absPrio  map[string]int // abstract-function argument term -> priority (0 goal, 1 path, 2 instances)
	curPrio  int
	absArgs  map[string][][]string // ground applications of abstract spec functions: function -> argument lists
}

// noteAbsTerms records the ground applications (abs!F t1 .. tn) occurring in f (outside binders).
func (in *instantiator) noteAbsTerms(f *sx) {
	if f.list == nil {
		return
	}
	h := f.head()
	if h == "forall" || h == "exists" {
		return
	}
	for _, c := range f.list {
		in.noteAbsTerms(c)
	}
	if strings.HasPrefix(h, "abs!") && len(f.list) > 1 {
		var args []string
		for _, a := range f.list[1:] {
			t := a.String()
			if strings.Contains(t, "q!") || len(t) > 200 {
				return
			}
			args = append(args, t)
		}
		if in.absArgs == nil {
			in.absArgs = map[string][][]string{}
		}
		for _, old := range in.absArgs[h] {
			if strings.Join(old, "\x00") == strings.Join(args, "\x00") {
				return
			}
		}
		if len(in.absArgs[h]) < 40 {
			in.absArgs[h] = append(in.absArgs[h], args)
		}
		if in.absPrio == nil {
			in.absPrio = map[string]int{}
		}
		for _, a := range args {
			if old, ok := in.absPrio[a]; !ok || in.curPrio < old {
				in.absPrio[a] = in.curPrio
			}
		}
	}
}

// trigCands: the ground terms at which binder name is worth instantiating because body applies an
// abstract spec function directly to it (E-matching with the single-argument pattern (abs!F .. x ..)).
func (in *instantiator) trigCands(body *sx, name string) []string {
	var out []string
	seen := map[string]bool{}
	var walk func(f *sx)
	walk = func(f *sx) {
		if f.list == nil {
			return
		}
		h := f.head()
		if strings.HasPrefix(h, "abs!") {
			for i, a := range f.list[1:] {
				if a.isAtom() && a.atom == name {
					for _, args := range in.absArgs[h] {
						if i < len(args) && !seen[args[i]] {
							seen[args[i]] = true
							out = append(out, args[i])
						}
					}
				}
			}
		}
		for _, c := range f.list {
			walk(c)
		}
	}
	walk(body)
	// terms of the goal first, then terms of the path, then terms that only instances introduced
	sort.SliceStable(out, func(a, b int) bool { return in.absPrio[out[a]] < in.absPrio[out[b]] })
	return out
}

// order fixes the final candidate order: skolems, then the path's index terms, then variants.
func (in *instantiator) order(path []string) {
	var out []string
	seen := map[string]bool{}
	add := func(xs []string) {
		for _, x := range xs {
			if !seen[x] {
				seen[x] = true
				out = append(out, x)
			}
		}
	}
	add(in.prime)
	add(path)
	add(in.variants)
	in.cands = out
}

// binders returns the names of the binders if all have sort Int; ok=false otherwise.
func intBinders(b *sx) ([]string, bool) {
	var names []string
	for _, x := range b.list {
		if len(x.list) != 2 || !x.list[1].isAtom() || x.list[1].atom != "Int" {
			return nil, false
		}
		names = append(names, x.list[0].atom)
	}
	return names, true
}

// collect walks a hypothesis in positive position and emits ground instances.
func (in *instantiator) collect(f *sx, guards []string) {
	if len(in.out) >= in.limit {
		return
	}
	switch f.head() {
	case "and":
		for _, c := range f.list[1:] {
			in.collect(c, guards)
		}
	case "=>":
		if len(f.list) == 3 {
			in.collect(f.list[2], append(append([]string(nil), guards...), f.list[1].String()))
		}
	case "ite":
		if len(f.list) == 4 {
			c := f.list[1].String()
			in.collect(f.list[2], append(append([]string(nil), guards...), c))
			in.collect(f.list[3], append(append([]string(nil), guards...), "(not "+c+")"))
		}
	case "forall":
		if len(f.list) != 3 {
			return
		}
		names, ok := intBinders(f.list[1])
		if !ok || len(names) > 2 || (len(in.cands) == 0 && len(in.refCands) == 0) {
			return
		}
		body := stripBang(f.list[2])
		emit := func(m map[string]string) {
			if len(in.out) >= in.limit {
				return
			}
			instSx := substSx(body, m)
			inst := instSx.String()
			g := inst
			if len(guards) > 0 {
				g = "(=> (and " + strings.Join(guards, " ") + ") " + inst + ")"
			}
			if !in.seen[g] {
				in.seen[g] = true
				in.out = append(in.out, g)
				if in.trig || in.nest > 0 {
					in.trigOut = append(in.trigOut, g)
				}
				if in.nest < 2 && len(in.absArgs) > 0 && containsQuant(instSx) {
					// nested quantifiers of the instance (e.g. the bytes of the i-th cell) are instantiated too
					in.nest++
					in.collect(instSx, guards)
					in.nest--
				}
			}
		}
		if len(in.absArgs) > 0 {
			// trigger-based instances first (abstract spec functions applied to the binders)
			var tc [][]string
			all := true
			for _, n := range names {
				c := in.trigCands(body, n)
				if len(c) == 0 {
					all = false
					break
				}
				max := 24
				if len(names) == 2 {
					max = 8
				}
				if len(c) > max {
					c = c[:max]
				}
				tc = append(tc, c)
			}
			in.trig = true
			if all && len(names) == 1 {
				for _, c := range tc[0] {
					emit(map[string]string{names[0]: c})
				}
			} else if all && len(names) == 2 {
				for _, c1 := range tc[0] {
					for _, c2 := range tc[1] {
						emit(map[string]string{names[0]: c1, names[1]: c2})
					}
				}
			}
			in.trig = false
			if all && envInt("GOVC_TRIGONLY", 0) == 1 {
				// a hypothesis about abstract functions of its binders is instantiated where those
				// functions are applied (as E-matching would), not at every index term of the path
				return
			}
		}
		if in.nest > 0 && len(in.absArgs) > 0 {
			// nested quantifier of an instance: trigger-based instances only (plus the skolem
			// constants when there is no trigger), to keep the query small
			hasTrig := true
			for _, n := range names {
				if len(in.trigCands(body, n)) == 0 {
					hasTrig = false
				}
			}
			if !hasTrig && len(names) == 1 && !strings.HasPrefix(names[0], "q!ref.") {
				for _, c := range in.prime {
					emit(map[string]string{names[0]: c})
				}
			}
			return
		}
		if len(names) == 1 {
			cs := in.cands
			if strings.HasPrefix(names[0], "q!ref.") {
				cs = in.refCands
			}
			for _, c := range cs {
				emit(map[string]string{names[0]: c})
			}
		} else {
			for _, n := range names {
				if strings.HasPrefix(n, "q!ref.") {
					return // mixed or multiple object binders: left to the solver
				}
			}
			cs := in.cands
			if len(cs) > in.max2 {
				cs = cs[:in.max2]
			}
			for _, c1 := range cs {
				for _, c2 := range cs {
					emit(map[string]string{names[0]: c1, names[1]: c2})
				}
			}
		}
	}
}

// skolemize replaces positive universal quantifiers of the goal by fresh constants.
func (in *instantiator) skolemize(f *sx) *sx {
	switch f.head() {
	case "and", "or":
		n := &sx{list: []*sx{f.list[0]}}
		for _, c := range f.list[1:] {
			n.list = append(n.list, in.skolemize(c))
		}
		return n
	case "=>":
		if len(f.list) == 3 {
			return &sx{list: []*sx{f.list[0], f.list[1], in.skolemize(f.list[2])}}
		}
	case "ite":
		if len(f.list) == 4 {
			return &sx{list: []*sx{f.list[0], f.list[1], in.skolemize(f.list[2]), in.skolemize(f.list[3])}}
		}
	case "forall":
		if len(f.list) == 3 {
			m := map[string]string{}
			for _, b := range f.list[1].list {
				if len(b.list) != 2 {
					return f
				}
				*in.fresh++
				name := fmt.Sprintf("sk!%s!%d", strings.ReplaceAll(b.list[0].atom, "!", "."), *in.fresh)
				in.newDecl = append(in.newDecl, fmt.Sprintf("(declare-fun %s () %s)", name, b.list[1].String()))
				m[b.list[0].atom] = name
				if b.list[1].isAtom() && b.list[1].atom == "Int" {
					if strings.HasPrefix(b.list[0].atom, "q!ref.") {
						in.refPrime = append(in.refPrime, name)
					} else {
						in.prime = append(in.prime, name)
						in.variants = append(in.variants, "(- "+name+" 1)", "(+ "+name+" 1)")
						for _, l := range in.lens {
							in.variants = append(in.variants, "(- "+name+" "+l+")")
						}
					}
				}
			}
			return in.skolemize(substSx(stripBang(f.list[2]), m))
		}
	}
	return f
}

// hypSkolem rewrites a hypothesis: existential quantifiers in positive position and universal
// quantifiers in negative position are replaced by fresh constants (conservative: the result is
// implied by the hypothesis for suitable values of the fresh constants). Returns the rewritten
// formula and whether anything changed.
func (in *instantiator) hypSkolem(f *sx, positive bool) (*sx, bool) {
	switch f.head() {
	case "and", "or":
		n := &sx{list: []*sx{f.list[0]}}
		ch := false
		for _, c := range f.list[1:] {
			r, c2 := in.hypSkolem(c, positive)
			n.list = append(n.list, r)
			ch = ch || c2
		}
		return n, ch
	case "not":
		if len(f.list) == 2 {
			r, ch := in.hypSkolem(f.list[1], !positive)
			return &sx{list: []*sx{f.list[0], r}}, ch
		}
	case "=>":
		if len(f.list) == 3 {
			a, c1 := in.hypSkolem(f.list[1], !positive)
			b, c2 := in.hypSkolem(f.list[2], positive)
			return &sx{list: []*sx{f.list[0], a, b}}, c1 || c2
		}
	case "ite":
		if len(f.list) == 4 {
			a, c1 := in.hypSkolem(f.list[2], positive)
			b, c2 := in.hypSkolem(f.list[3], positive)
			return &sx{list: []*sx{f.list[0], f.list[1], a, b}}, c1 || c2
		}
	case "forall", "exists":
		if len(f.list) != 3 {
			return f, false
		}
		isForall := f.head() == "forall"
		if isForall == positive {
			// stays a quantifier; rewrite inside
			body, ch := in.hypSkolem(stripBang(f.list[2]), positive)
			if !ch {
				return f, false
			}
			return &sx{list: []*sx{f.list[0], f.list[1], body}}, true
		}
		m := map[string]string{}
		for _, b := range f.list[1].list {
			if len(b.list) != 2 {
				return f, false
			}
			*in.fresh++
			name := fmt.Sprintf("hs!%s!%d", strings.ReplaceAll(b.list[0].atom, "!", "."), *in.fresh)
			in.newDecl = append(in.newDecl, fmt.Sprintf("(declare-fun %s () %s)", name, b.list[1].String()))
			m[b.list[0].atom] = name
			if b.list[1].isAtom() && b.list[1].atom == "Int" {
				if strings.HasPrefix(b.list[0].atom, "q!ref.") {
					in.refPrime = append(in.refPrime, name)
				} else {
					in.prime = append(in.prime, name)
				}
			}
		}
		body, _ := in.hypSkolem(substSx(stripBang(f.list[2]), m), positive)
		return body, true
	}
	return f, false
}

// dropQuant weakens a hypothesis by replacing its remaining quantified parts (universals in
// positive position, existentials in negative position) by true / false respectively. The result
// is implied by the hypothesis, so a proof from the weakened hypotheses is a proof.
func dropQuant(f *sx, positive bool) *sx {
	switch f.head() {
	case "and", "or":
		n := &sx{list: []*sx{f.list[0]}}
		for _, c := range f.list[1:] {
			n.list = append(n.list, dropQuant(c, positive))
		}
		return n
	case "not":
		if len(f.list) == 2 {
			return &sx{list: []*sx{f.list[0], dropQuant(f.list[1], !positive)}}
		}
	case "=>":
		if len(f.list) == 3 {
			return &sx{list: []*sx{f.list[0], dropQuant(f.list[1], !positive), dropQuant(f.list[2], positive)}}
		}
	case "ite":
		if len(f.list) == 4 && !containsQuant(f.list[1]) {
			return &sx{list: []*sx{f.list[0], f.list[1], dropQuant(f.list[2], positive), dropQuant(f.list[3], positive)}}
		}
	case "forall":
		if positive {
			return &sx{atom: "true"}
		}
	case "exists":
		if !positive {
			return &sx{atom: "false"}
		}
	}
	if containsQuant(f) {
		// quantifier in a position of unknown polarity: the whole sub-formula is dropped
		if positive {
			return &sx{atom: "true"}
		}
		return &sx{atom: "false"}
	}
	return f
}

func containsQuant(f *sx) bool {
	if f.list == nil {
		return false
	}
	if h := f.head(); h == "forall" || h == "exists" {
		return true
	}
	for _, c := range f.list {
		if containsQuant(c) {
			return true
		}
	}
	return false
}

// ---- syntactic E-matching of pattern axioms (ground phase) ----

type patAxiom struct {
	vars map[string]bool
	pat  *sx
	body *sx
}

// ematch instantiates axioms of the form (forall (binders) (! body :pattern (pat))) at every
// ground subterm of text that matches pat (two rounds: the second over the instances of the
// first). Sound: every instance is implied by its axiom.
func ematch(axioms []string, text string) []string {
	var pas []*patAxiom
	for _, a := range axioms {
		t, err := parseSx(a)
		if err != nil || t.head() != "forall" || len(t.list) != 3 {
			continue
		}
		bang := t.list[2]
		if bang.head() != "!" || len(bang.list) < 4 {
			continue
		}
		pa := &patAxiom{vars: map[string]bool{}, body: bang.list[1]}
		for _, bnd := range t.list[1].list {
			if len(bnd.list) == 2 {
				pa.vars[bnd.list[0].atom] = true
			}
		}
		for i := 2; i+1 < len(bang.list); i++ {
			if bang.list[i].atom == ":pattern" && len(bang.list[i+1].list) == 1 {
				pa.pat = bang.list[i+1].list[0]
			}
		}
		if pa.pat != nil && pa.pat.list != nil {
			pas = append(pas, pa)
		}
	}
	if len(pas) == 0 {
		return nil
	}
	byHead := map[string][]*sx{}
	seenT := map[string]bool{}
	var collect func(t *sx, bound map[string]bool)
	collect = func(t *sx, bound map[string]bool) {
		if t.list == nil {
			return
		}
		h := t.head()
		if h == "forall" || h == "exists" {
			return // terms under a binder may mention bound variables
		}
		if h == "let" {
			return
		}
		for _, c := range t.list {
			collect(c, bound)
		}
		if h != "" {
			k := t.String()
			if !seenT[k] {
				seenT[k] = true
				byHead[h] = append(byHead[h], t)
			}
		}
	}
	parseAll := func(txt string) {
		// the text is a sequence of top-level s-expressions
		depth, start := 0, -1
		inBar := false
		for i := 0; i < len(txt); i++ {
			ch := txt[i]
			if ch == '|' {
				inBar = !inBar
			}
			if inBar {
				continue
			}
			if ch == '(' {
				if depth == 0 {
					start = i
				}
				depth++
			} else if ch == ')' {
				depth--
				if depth == 0 && start >= 0 {
					if t, err := parseSx(txt[start : i+1]); err == nil && t.head() == "assert" && len(t.list) == 2 {
						collect(t.list[1], nil)
					}
					start = -1
				}
			}
		}
	}
	parseAll(text)
	seenI := map[string]bool{}
	var out []string
	round := func() []string {
		var fresh []string
		for _, pa := range pas {
			for _, t := range byHead[pa.pat.head()] {
				m := map[string]string{}
				if matchSx(pa.pat, t, pa.vars, m) && len(m) == len(pa.vars) {
					inst := substSx(pa.body, m).String()
					if !seenI[inst] {
						seenI[inst] = true
						fresh = append(fresh, inst)
					}
				}
			}
		}
		return fresh
	}
	r1 := round()
	out = append(out, r1...)
	for k := 0; k < envInt("GOVC_EMATCH_ROUNDS", 4)-1 && len(out) < 20000 && len(r1) > 0; k++ {
		for _, i := range r1 {
			if t, err := parseSx(i); err == nil {
				collect(t, nil)
			}
		}
		r1 = round()
		out = append(out, r1...)
	}
	return out
}

func matchSx(p, t *sx, vars map[string]bool, m map[string]string) bool {
	if p.list == nil {
		if vars[p.atom] {
			ts := t.String()
			if old, ok := m[p.atom]; ok {
				return old == ts
			}
			m[p.atom] = ts
			return true
		}
		return t.list == nil && t.atom == p.atom
	}
	if t.list == nil || len(t.list) != len(p.list) {
		return false
	}
	for i := range p.list {
		if !matchSx(p.list[i], t.list[i], vars, m) {
			return false
		}
	}
	return true
}

// newIndexTerms returns index terms X occurring as (+ (soff S) X) in the given instances that are
// not candidates yet (at most max of them, shortest first).
func newIndexTerms(insts []string, have []string, max int, atoms bool) []string {
	seen := map[string]bool{}
	for _, h := range have {
		seen[h] = true
	}
	var found []string
	var walk func(t *sx)
	walk = func(t *sx) {
		if t.list == nil {
			return
		}
		if t.head() == "select" && len(t.list) == 3 && t.list[2].head() == "soff" && atoms && !seen["0"] {
			seen["0"] = true
			found = append(found, "0")
		}
		if t.head() == "select" && len(t.list) == 3 && t.list[1].head() == "select" && len(t.list[1].list) == 3 && t.list[1].list[1].isAtom() && strings.HasPrefix(t.list[1].list[1].atom, "G!") {
			// position in a two-dimensional ghost (byte j of write k, byte i of buffer b)
			x := t.list[2].String()
			if !seen[x] && len(x) < 160 && !strings.Contains(x, "q!") {
				seen[x] = true
				found = append(found, x)
			}
		}
		if t.head() == "+" && len(t.list) == 3 && t.list[1].head() == "soff" {
			x := t.list[2].String()
			if !seen[x] && len(x) < 160 && !strings.Contains(x, "q!") {
				seen[x] = true
				found = append(found, x)
			}
		}
		for _, c := range t.list {
			walk(c)
		}
	}
	for _, i := range insts {
		if t, err := parseSx(i); err == nil {
			walk(t)
		}
	}
	sort.SliceStable(found, func(a, b int) bool { return len(found[a]) < len(found[b]) })
	// numerals and plain constants are rarely useful; prefer compound terms
	var out []string
	for _, f := range found {
		if strings.HasPrefix(f, "(") || atoms {
			out = append(out, f)
		}
	}
	if len(out) > max {
		out = out[:max]
	}
	return out
}

// refTerms collects terms of the given formulas that denote objects: parameter / allocation
// constants and pointer-array reads (select (select E!ptr... b) i), shortest first, at most max.
func refTerms(fs []string, max int, isInt func(string) bool) []string {
	seen := map[string]bool{}
	var out []string
	var walk func(t *sx)
	walk = func(t *sx) {
		if t.list == nil {
			a := t.atom
			if (strings.HasPrefix(a, "p.") || strings.HasPrefix(a, "new.") || strings.HasPrefix(a, "fv.") || strings.HasPrefix(a, "sk!q.ref.") || strings.HasPrefix(a, "hs!q.ref.")) && !seen[a] && isInt(a) {
				seen[a] = true
				out = append(out, a)
			}
			return
		}
		if t.head() == "select" && len(t.list) == 3 && t.list[1].head() == "select" && t.list[1].list[1].isAtom() && strings.HasPrefix(t.list[1].list[1].atom, "E!ptr.") {
			k := t.String()
			if !seen[k] && len(k) < 400 && !strings.Contains(k, "q!") {
				seen[k] = true
				out = append(out, k)
			}
		}
		for _, c := range t.list {
			walk(c)
		}
	}
	for _, f := range fs {
		if t, err := parseSx(f); err == nil {
			walk(t)
		}
	}
	sort.SliceStable(out, func(a, b int) bool { return len(out[a]) < len(out[b]) })
	if len(out) > max {
		out = out[:max]
	}
	return out
}
