package main

import (
	"bytes"
	"context"
	"fmt"
	"os"
	"os/exec"
	"path/filepath"
	"regexp"
	"strings"
	"sync"
	"time"
)

type SolveResult struct {
	Status string // "unsat", "sat", "unknown", "timeout", "error"
	Solver string
	TimeS  float64
	Output string
	File   string
	Bytes  int
	Tried  []string
}

type solverSpec struct {
	name string
	cmd  func(file string, secs int) []string
}

var solvers = []solverSpec{
	{"z3-4.8.12", func(f string, s int) []string { return []string{"/usr/bin/z3", fmt.Sprintf("-T:%d", s), f} }},
	{"z3-5.1.0", func(f string, s int) []string { return []string{"z3-new", fmt.Sprintf("-T:%d", s), f} }},
	{"cvc5-1.0", func(f string, s int) []string {
		return []string{"cvc5", fmt.Sprintf("--tlimit=%d", s*1000), "--full-saturate-quant", f}
	}},
	{"z3-4.8.12(mbqi=false)", func(f string, s int) []string {
		return []string{"/usr/bin/z3", fmt.Sprintf("-T:%d", s), "smt.mbqi=false", f}
	}},
	{"z3-5.1.0(mbqi=false)", func(f string, s int) []string {
		return []string{"z3-new", fmt.Sprintf("-T:%d", s), "smt.mbqi=false", f}
	}},
}

func runSolver(ctx context.Context, sp solverSpec, file string, secs int) (status, out string, dur float64) {
	args := sp.cmd(file, secs)
	t0 := time.Now()
	cctx, cancel := context.WithTimeout(ctx, time.Duration(secs+2)*time.Second)
	defer cancel()
	cmd := exec.CommandContext(cctx, args[0], args[1:]...)
	var buf bytes.Buffer
	cmd.Stdout = &buf
	cmd.Stderr = &buf
	_ = cmd.Run()
	dur = time.Since(t0).Seconds()
	out = buf.String()
	first := strings.TrimSpace(out)
	if i := strings.IndexByte(first, '\n'); i >= 0 {
		first = strings.TrimSpace(first[:i])
	}
	switch first {
	case "unsat", "sat", "unknown":
		return first, out, dur
	case "timeout":
		return "timeout", out, dur
	}
	if cctx.Err() != nil {
		return "timeout", out, dur
	}
	if strings.Contains(out, "interrupted by timeout") || strings.Contains(out, "cvc5 interrupted by timeout") {
		return "timeout", out, dur
	}
	return "error", out, dur
}

// solve decides one SMT file: z3 4.8.12 first with a short limit, then the other two raced.
func solve(file string, secs int) *SolveResult {
	res := &SolveResult{File: file}
	if fi, err := os.Stat(file); err == nil {
		res.Bytes = int(fi.Size())
	}
	t0 := time.Now()
	first := 3
	if secs < first {
		first = secs
	}
	st, out, _ := runSolver(context.Background(), solvers[0], file, first)
	res.Tried = append(res.Tried, solvers[0].name+":"+st)
	if st == "unsat" || st == "sat" {
		res.Status, res.Solver, res.Output = st, solvers[0].name, out
		res.TimeS = time.Since(t0).Seconds()
		return res
	}
	firstOut := out
	type ans struct {
		st, out, name string
	}
	ctx, cancel := context.WithCancel(context.Background())
	defer cancel()
	ch := make(chan ans, 5)
	var wg sync.WaitGroup
	race := []solverSpec{solvers[1], solvers[2], solvers[3], solvers[4]}
	for _, sp := range race {
		wg.Add(1)
		go func(sp solverSpec) {
			defer wg.Done()
			s, o, _ := runSolver(ctx, sp, file, secs)
			ch <- ans{s, o, sp.name}
		}(sp)
	}
	go func() { wg.Wait(); close(ch) }()
	best := ans{st: "unknown", out: firstOut, name: solvers[0].name}
	for a := range ch {
		res.Tried = append(res.Tried, a.name+":"+a.st)
		if a.st == "unsat" || a.st == "sat" {
			best = a
			cancel()
			break
		}
		if a.st == "timeout" && best.st != "timeout" {
			best = a
		}
	}
	res.Status, res.Solver, res.Output = best.st, best.name, best.out
	res.TimeS = time.Since(t0).Seconds()
	return res
}

// solveAll discharges obligations in parallel.
func solveAll(obls []*Obligation, workDir string, secs int, workers int) {
	os.MkdirAll(workDir, 0o755)
	var wg sync.WaitGroup
	sem := make(chan struct{}, workers)
	for i, o := range obls {
		wg.Add(1)
		sem <- struct{}{}
		go func(i int, o *Obligation) {
			defer wg.Done()
			defer func() { <-sem }()
			file := filepath.Join(workDir, fmt.Sprintf("%04d_%s.smt2", i, safeName(o.ID)))
			header := fmt.Sprintf("; obligation %s\n; path %s pos %s\n; %s\n", o.ID, o.Path, o.Pos, strings.ReplaceAll(o.Text, "\n", " "))
			if !o.Cover {
				// phase A: hypotheses weakened to their ground instances (sound: fewer assumptions)
				lite := o.ctx.render(o.PC, o.Goal, false, o.Cands, o.Lens, true)
				lfile := strings.TrimSuffix(file, ".smt2") + ".lite.smt2"
				os.WriteFile(lfile, []byte(header+"; phase A: quantified hypotheses replaced by their ground instances\n"+lite), 0o644)
				st, out, dur := runSolver(context.Background(), solvers[0], lfile, liteSecs(secs))
				if st == "unsat" {
					fi, _ := os.Stat(lfile)
					o.Result = &SolveResult{Status: "unsat", Solver: solvers[0].name + "(ground)", TimeS: dur, Output: out, File: lfile, Bytes: int(fi.Size()), Tried: []string{"ground:unsat"}}
					return
				}
				if st != "sat" {
					// the ground query is large: cvc5 and the newer z3 are often faster than z3 4.8 on big
					// quantifier-free array / linear arithmetic problems; race the two
					if name, out2, dur2, ok := raceUnsat(lfile, 2*liteSecs(secs), solvers[2], solvers[1]); ok {
						fi, _ := os.Stat(lfile)
						o.Result = &SolveResult{Status: "unsat", Solver: name + "(ground)", TimeS: dur + dur2, Output: out2, File: lfile, Bytes: int(fi.Size()), Tried: []string{"ground:z3:" + st, "ground:" + name + ":unsat"}}
						return
					}
				}
			}
			if !o.Cover && len(o.Lens) > 0 {
				// case split on "the goal's index is the position just appended" (sound: both cases are proved)
				lfile := strings.TrimSuffix(file, ".smt2") + ".lite.smt2"
				if name, dur, ok := splitOnLength(lfile, o.Lens, liteSecs(secs)); ok {
					fi, _ := os.Stat(lfile)
					o.Result = &SolveResult{Status: "unsat", Solver: name + "(ground,split)", TimeS: dur, File: lfile, Bytes: int(fi.Size()), Tried: []string{"ground:split:unsat"}}
					return
				}
			}
			text := o.ctx.render(o.PC, o.Goal, o.Cover, o.Cands, o.Lens, false)
			os.WriteFile(file, []byte(header+text), 0o644)
			if o.Cover {
				o.Result = solve(file, 2)
			} else {
				o.Result = solve(file, secs)
			}
		}(i, o)
	}
	wg.Wait()
}

var skolemDeclRe = regexp.MustCompile(`\(declare-fun (sk![^ ]+) \(\) Int\)`)

// splitOnLength tries to prove a ground query by cases sk = L / sk != L for a skolem index sk of the
// goal and the length L of a slice that was appended to on the path. Both cases must be unsat.
func splitOnLength(lfile string, lens []string, secs int) (string, float64, bool) {
	data, err := os.ReadFile(lfile)
	if err != nil {
		return "", 0, false
	}
	text := string(data)
	var sks []string
	for _, m := range skolemDeclRe.FindAllStringSubmatch(text, 3) {
		sks = append(sks, m[1])
	}
	t0 := time.Now()
	for _, sk := range sks {
		for i, l := range lens {
			if i >= 2 {
				break
			}
			okBoth := true
			var who string
			for c, extra := range []string{"(assert (= " + sk + " " + l + "))", "(assert (not (= " + sk + " " + l + ")))"} {
				q := strings.Replace(text, "(check-sat)", extra+"\n(check-sat)", 1)
				qf := strings.TrimSuffix(lfile, ".smt2") + fmt.Sprintf(".case%d.smt2", c)
				os.WriteFile(qf, []byte(q), 0o644)
				name, _, _, ok := raceUnsat(qf, secs, solvers[1], solvers[0])
				if !ok {
					okBoth = false
					break
				}
				who = name
			}
			if okBoth {
				return who, time.Since(t0).Seconds(), true
			}
		}
	}
	return "", time.Since(t0).Seconds(), false
}

// raceUnsat runs the given solvers on one file concurrently and reports the first "unsat".
func raceUnsat(file string, secs int, sps ...solverSpec) (name, out string, dur float64, ok bool) {
	type ans struct {
		st, out, name string
		dur           float64
	}
	ctx, cancel := context.WithCancel(context.Background())
	defer cancel()
	ch := make(chan ans, len(sps))
	for _, sp := range sps {
		go func(sp solverSpec) {
			s, o, d := runSolver(ctx, sp, file, secs)
			ch <- ans{s, o, sp.name, d}
		}(sp)
	}
	var worst float64
	for range sps {
		a := <-ch
		if a.dur > worst {
			worst = a.dur
		}
		if a.st == "unsat" {
			return a.name, a.out, a.dur, true
		}
	}
	return "", "", worst, false
}

func safeName(s string) string {
	var b strings.Builder
	for _, r := range s {
		if r >= 'a' && r <= 'z' || r >= 'A' && r <= 'Z' || r >= '0' && r <= '9' || r == '.' || r == '_' || r == '-' {
			b.WriteRune(r)
		} else {
			b.WriteByte('_')
		}
	}
	out := b.String()
	if len(out) > 120 {
		out = out[:120]
	}
	return out
}

func liteSecs(secs int) int {
	if secs < 10 {
		return secs
	}
	return 10
}

// retryFailed gives obligations that ended without a definite answer a second, calmer attempt
// (few workers, longer limits): under machine load the first parallel pass can time out on
// obligations that discharge in a second when run alone. Bounded so that a genuinely broken tree
// does not cost minutes.
func retryFailed(obls []*Obligation, workDir string, secs int) int {
	var todo []*Obligation
	for _, o := range obls {
		if o.Cover || o.Result == nil || o.Result.Status == "unsat" || o.Result.Status == "sat" {
			continue
		}
		todo = append(todo, o)
	}
	if len(todo) == 0 || len(todo) > 24 {
		return 0
	}
	var wg sync.WaitGroup
	sem := make(chan struct{}, 3)
	fixed := 0
	var mu sync.Mutex
	for i, o := range todo {
		wg.Add(1)
		sem <- struct{}{}
		go func(i int, o *Obligation) {
			defer wg.Done()
			defer func() { <-sem }()
			lfile := filepath.Join(workDir, fmt.Sprintf("retry%03d_%s.lite.smt2", i, safeName(o.ID)))
			lite := o.ctx.render(o.PC, o.Goal, false, o.Cands, o.Lens, true)
			os.WriteFile(lfile, []byte("; retry of "+o.ID+"\n"+lite), 0o644)
			st, out, dur := runSolver(context.Background(), solvers[0], lfile, 30)
			if st != "unsat" && st != "sat" {
				if _, out2, dur2, ok := raceUnsat(lfile, 60, solvers[2], solvers[1]); ok {
					st, out, dur = "unsat", out2, dur+dur2
				}
			}
			if st == "unsat" {
				fi, _ := os.Stat(lfile)
				o.Result = &SolveResult{Status: "unsat", Solver: solvers[0].name + "(ground,retry)", TimeS: dur, Output: out, File: lfile, Bytes: int(fi.Size()), Tried: []string{"retry-ground:unsat"}}
				mu.Lock()
				fixed++
				mu.Unlock()
				return
			}
			file := filepath.Join(workDir, fmt.Sprintf("retry%03d_%s.smt2", i, safeName(o.ID)))
			os.WriteFile(file, []byte("; retry of "+o.ID+"\n"+o.ctx.render(o.PC, o.Goal, false, o.Cands, o.Lens, false)), 0o644)
			r := solve(file, secs*3)
			if r.Status == "unsat" || r.Status == "sat" {
				r.Solver += "(retry)"
				o.Result = r
				if r.Status == "unsat" {
					mu.Lock()
					fixed++
					mu.Unlock()
				}
			}
		}(i, o)
	}
	wg.Wait()
	return fixed
}
