package main

import (
	"context"
	"encoding/json"
	"fmt"
	"go/constant"
	"go/token"
	"go/types"
	"os"
	"path/filepath"
	"sort"
	"strings"

	"golang.org/x/tools/go/ssa"
)

// Obligation is one proof obligation (one SMT query).
type Obligation struct {
	Func   string
	Kind   string // post, pre, nopanic.index, inv.init, inv.preserve, dec.loop, frame, cover.pre, lemma ...
	Label  string
	ID     string
	Props  []string
	PC     []string
	Goal   string
	Cover  bool // must be satisfiable
	Path   string
	Pos    string
	Text   string // contract clause text or site description
	ctx    *Ctx
	Result *SolveResult
	Inputs []modelInput // terms to evaluate in a model (for replay)
	Cands  []string     // candidate index terms for ground instantiation
	Lens   []string     // append prefix lengths (instantiation offsets)
	Info   bool         // informational only (never affects the verdict)
}

type modelInput struct {
	Name string
	Term string
}

type loopInfo struct {
	head    *ssa.BasicBlock
	body    map[*ssa.BasicBlock]bool
	ordinal int
	spec    *LoopSpec
	phis    []*ssa.Phi
}

type unsupportedErr struct{ msg string }

type closureInfo struct {
	fn       *ssa.Function
	bindings []Value
}

// Verifier verifies one function against its contract.
type Verifier struct {
	phiAlias       map[*ssa.Phi][]string // recorded source names of loop variables that have been renamed since the baseline
	rangeName      map[ssa.Value]string  // per map range instruction: name of its ghost set of produced keys
	exitChecked    map[int]bool          // loops whose exit clauses were emitted on at least one path
	rangeEntryHas  map[ssa.Value]string  // per map range: presence array of the map when the range started
	prog           *Program
	fn             *ssa.Function
	key            string
	contract       *Contract
	env            *Env
	obls           []*Obligation
	entry          *State
	loops          map[*ssa.BasicBlock]*loopInfo
	dbg            map[ssa.Value][]string
	addrNames      map[string]ssa.Value // source var name -> Alloc cell (captured / address-taken locals)
	siteOrd        map[ssa.Instruction]int
	paths          int
	maxPaths       int
	unsupported    string
	notes          []string // havoc-all calls, assumptions
	closures       map[string]*closureInfo
	qn             int
	params         map[string]Value
	freeDeref      map[string]Value // free variable name -> pointer value (cells)
	invOld         map[*ECall]Value // closure invariants: old(...) occurrence -> unknown constant
	checkedNil     map[string]bool
	assumeCount    int
	trustedUsed    map[string]bool
	pruneN         int
	partialSkipped int
	measure0       string // termination measure at entry (functions with a decreases clause)
}

func (v *Verifier) unsupportedf(format string, args ...interface{}) {
	panic(unsupportedErr{fmt.Sprintf(format, args...)})
}

func newVerifier(p *Program, sr *SortReg, fn *ssa.Function, c *Contract) *Verifier {
	ctx := newCtx(sr)
	var pkg *types.Package
	if fn.Pkg != nil {
		pkg = fn.Pkg.Pkg
	}
	v := &Verifier{
		prog: p, fn: fn, key: funcKey(fn), contract: c,
		env:       &Env{ctx: ctx, sr: sr, prog: p, pkg: pkg, init: map[string]string{}},
		loops:     map[*ssa.BasicBlock]*loopInfo{},
		maxPaths:  4096,
		closures:  map[string]*closureInfo{},
		params:    map[string]Value{},
		freeDeref: map[string]Value{}, invOld: map[*ECall]Value{},
		trustedUsed: map[string]bool{},
	}
	return v
}

func (v *Verifier) pkgShort() string {
	if v.contract != nil && v.contract.Pkg != "" {
		return v.contract.Pkg
	}
	if v.fn.Pkg != nil {
		return shortPkg(v.fn.Pkg.Pkg.Path())
	}
	if v.fn.Parent() != nil && v.fn.Parent().Pkg != nil {
		return shortPkg(v.fn.Parent().Pkg.Pkg.Path())
	}
	return ""
}

func (v *Verifier) posOf(in ssa.Instruction) string {
	p := in.Pos()
	if !p.IsValid() {
		return ""
	}
	pp := v.prog.ssaProg.Fset.Position(p)
	return fmt.Sprintf("%s:%d", shortFile(pp.Filename), pp.Line)
}

func shortFile(f string) string {
	if i := strings.Index(f, "/repo/"); i >= 0 {
		return f[i+6:]
	}
	return f
}

// ---------- analysis of loops and sites ----------

func (v *Verifier) analyse() {
	fn := v.fn
	// loops: back edges p->h where h dominates p
	var heads []*ssa.BasicBlock
	for _, b := range fn.Blocks {
		for _, p := range b.Preds {
			if b.Dominates(p) {
				if v.loops[b] == nil {
					v.loops[b] = &loopInfo{head: b, body: map[*ssa.BasicBlock]bool{b: true}}
					heads = append(heads, b)
				}
				// natural loop of back edge p->b
				li := v.loops[b]
				var stack []*ssa.BasicBlock
				if !li.body[p] {
					li.body[p] = true
					stack = append(stack, p)
				}
				for len(stack) > 0 {
					x := stack[len(stack)-1]
					stack = stack[:len(stack)-1]
					for _, q := range x.Preds {
						if !li.body[q] {
							li.body[q] = true
							stack = append(stack, q)
						}
					}
				}
			}
		}
	}
	// order loop heads by source position of the loop (fall back to block index)
	headPos := func(b *ssa.BasicBlock) token.Pos {
		best := token.NoPos
		for blk := range v.loops[b].body {
			for _, in := range blk.Instrs {
				if p := in.Pos(); p.IsValid() && (best == token.NoPos || p < best) {
					best = p
				}
			}
		}
		return best
	}
	sort.Slice(heads, func(i, j int) bool {
		pi, pj := headPos(heads[i]), headPos(heads[j])
		if pi != pj && pi.IsValid() && pj.IsValid() {
			return pi < pj
		}
		return heads[i].Index < heads[j].Index
	})
	for i, h := range heads {
		li := v.loops[h]
		li.ordinal = i + 1
		if v.contract != nil {
			li.spec = v.contract.Loops[i+1]
		}
		for _, in := range h.Instrs {
			if ph, ok := in.(*ssa.Phi); ok {
				li.phis = append(li.phis, ph)
			}
		}
		if autos := v.autoInvariants(li); len(autos) > 0 {
			if li.spec == nil {
				li.spec = &LoopSpec{Binds: map[string]int{}}
			} else {
				cp := *li.spec
				cp.Invariants = append([]*Clause(nil), li.spec.Invariants...)
				li.spec = &cp
			}
			li.spec.Invariants = append(li.spec.Invariants, autos...)
		}
	}
	v.dbg = debugNames(fn)
	v.addrNames = map[string]ssa.Value{}
	for _, b := range fn.Blocks {
		for _, in := range b.Instrs {
			if a, ok := in.(*ssa.Alloc); ok && a.Comment != "" && a.Comment != "complit" && a.Comment != "varargs" {
				v.addrNames[a.Comment] = a
			}
		}
	}
	v.applyRecordedNames()
	// ordinals for implicit sites, per kind, in source order
	type site struct {
		in   ssa.Instruction
		kind string
		pos  token.Pos
		seq  int
	}
	var sites []site
	seq := 0
	for _, b := range fn.Blocks {
		for _, in := range b.Instrs {
			seq++
			if k := siteKind(in); k != "" {
				sites = append(sites, site{in, k, in.Pos(), seq})
			}
		}
	}
	sort.SliceStable(sites, func(i, j int) bool {
		if sites[i].pos.IsValid() && sites[j].pos.IsValid() && sites[i].pos != sites[j].pos {
			return sites[i].pos < sites[j].pos
		}
		return sites[i].seq < sites[j].seq
	})
	v.siteOrd = map[ssa.Instruction]int{}
	cnt := map[string]int{}
	for _, s := range sites {
		cnt[s.kind]++
		v.siteOrd[s.in] = cnt[s.kind]
	}
}

func siteKind(in ssa.Instruction) string {
	switch x := in.(type) {
	case *ssa.IndexAddr, *ssa.Index:
		return "index"
	case *ssa.Lookup:
		if _, ok := x.X.Type().Underlying().(*types.Basic); ok {
			return "index"
		}
	case *ssa.Slice:
		return "slice"
	case *ssa.TypeAssert:
		if !x.CommaOk {
			return "assert"
		}
	case *ssa.BinOp:
		if x.Op == token.QUO || x.Op == token.REM {
			return "div"
		}
	case *ssa.Panic:
		return "explicit"
	case *ssa.MapUpdate:
		return "nilmap"
	case *ssa.FieldAddr, *ssa.UnOp:
		return "nil"
	case *ssa.MakeSlice:
		return "makeslice"
	case *ssa.Call:
		if b, ok := x.Call.Value.(*ssa.Builtin); ok && b.Name() == "panic" {
			return "explicit"
		}
		return "call"
	}
	return ""
}

// ---------- obligations ----------

// splitGoal splits a goal at top-level conjunctions (also under implications) into separate goals.
func splitGoal(goal string) []string {
	if !strings.Contains(goal, "(and ") || len(goal) < 200 {
		return []string{goal}
	}
	t, err := parseSx(goal)
	if err != nil {
		return []string{goal}
	}
	var out []string
	// wrap applies the enclosing binders/guards (innermost last) to a leaf goal
	type frame struct {
		guard  string // non-empty: implication guard
		binder string // non-empty: "(forall (binders)"
	}
	var walk func(f *sx, ctx []frame)
	walk = func(f *sx, ctx []frame) {
		switch f.head() {
		case "and":
			for _, c := range f.list[1:] {
				walk(c, ctx)
			}
			return
		case "=>":
			if len(f.list) == 3 {
				walk(f.list[2], append(append([]frame(nil), ctx...), frame{guard: f.list[1].String()}))
				return
			}
		case "forall":
			if len(f.list) == 3 {
				walk(stripBang(f.list[2]), append(append([]frame(nil), ctx...), frame{binder: f.list[1].String()}))
				return
			}
		case "ite":
			if len(f.list) == 4 {
				c := f.list[1].String()
				walk(f.list[2], append(append([]frame(nil), ctx...), frame{guard: c}))
				walk(f.list[3], append(append([]frame(nil), ctx...), frame{guard: "(not " + c + ")"}))
				return
			}
		}
		g := f.String()
		for i := len(ctx) - 1; i >= 0; i-- {
			if ctx[i].guard != "" {
				g = "(=> " + ctx[i].guard + " " + g + ")"
			} else {
				g = "(forall " + ctx[i].binder + " " + g + ")"
			}
		}
		out = append(out, g)
	}
	walk(t, nil)
	if len(out) == 0 || len(out) > 40 {
		return []string{goal}
	}
	return out
}

func (v *Verifier) emit(st *State, kind, label, goal string, props []string, text string, in ssa.Instruction) *Obligation {
	if kind == "post" || strings.HasPrefix(kind, "inv.") || kind == "pre" {
		if parts := splitGoal(goal); len(parts) > 1 {
			var last *Obligation
			for _, g := range parts {
				last = v.emit1(st, kind, label, g, props, text, in)
			}
			return last
		}
	}
	return v.emit1(st, kind, label, goal, props, text, in)
}

func (v *Verifier) emit1(st *State, kind, label, goal string, props []string, text string, in ssa.Instruction) *Obligation {
	if v.contract != nil && v.contract.Partial {
		if strings.HasPrefix(kind, "nopanic") || kind == "pre" || strings.HasPrefix(kind, "frame") || kind == "own" || kind == "dec.call" {
			// partial contract: implicit obligations are not claimed (they are assumed to hold)
			v.partialSkipped++
			return &Obligation{ID: "skipped"}
		}
	}
	id := v.key + "/" + kind
	if label != "" {
		id += "." + label
	}
	o := &Obligation{
		Func: v.key, Kind: kind, Label: label, ID: id, Props: props,
		PC: append([]string(nil), st.pc...), Goal: goal, Path: fmtPath(st), Text: text, ctx: v.env.ctx,
		Cands: append([]string(nil), st.cands...),
		Lens:  append([]string(nil), st.lens...),
	}
	if in != nil {
		o.Pos = v.posOf(in)
	}
	v.obls = append(v.obls, o)
	return o
}

func (v *Verifier) emitCover(st *State, label, extra, text string) {
	o := v.emit(st, "cover", label, extra, nil, text, nil)
	o.Cover = true
}

func (v *Verifier) siteLabel(in ssa.Instruction) string {
	return fmt.Sprintf("%d", v.siteOrd[in])
}

// checkSite emits a nopanic obligation for an implicit panic site.
func (v *Verifier) checkSite(st *State, in ssa.Instruction, kind, cond, desc string) {
	if cond == "true" {
		return
	}
	if v.panicAllowed(kind) {
		// the contract excludes this class of panic from the obligations of this function: recorded
		v.notes = append(v.notes, fmt.Sprintf("assume no %s panic in %s (allowpanic %s): %s", kind, v.key, kind, desc))
	} else {
		v.emit(st, "nopanic."+kind, v.siteLabel(in), cond, nil, desc, in)
	}
	// after the check the execution continues only if the condition held
	st.assume(cond)
}

func (v *Verifier) checkNonNil(st *State, in ssa.Instruction, ptr Value) {
	if ptr.Addr != nil {
		return
	}
	key := ptr.T
	if v.checkedNil == nil {
		v.checkedNil = map[string]bool{}
	}
	ck := fmtPath(st) + "|" + key
	_ = ck
	// cheap syntactic filter: freshly allocated refs and embedded refs are non-nil
	if strings.HasPrefix(key, "new.") || strings.HasPrefix(key, "(emb!") {
		return
	}
	for _, p := range st.pc {
		if p == "(> "+key+" 0)" || p == "(not (= "+key+" 0))" {
			return
		}
	}
	v.checkSite(st, in, "nil", "(not (= "+key+" 0))", "nil dereference of "+key)
}

// ---------- spec environment ----------

func (v *Verifier) specEnv(st *State, vars map[string]Value) *SpecEnv {
	se := &SpecEnv{e: v.env, s: st, old: v.entry, vars: vars, pkg: v.pkgShort(), qn: &v.qn}
	if v.entry != nil && (len(v.freeDeref) > 0 || len(v.addrNames) > 0) {
		// captured variables and address-taken parameters: inside old(...) they have their entry value
		ov := map[string]Value{}
		for name, ptr := range v.freeDeref {
			ov[name] = v.loadAddr(v.entry, ptr, nil)
		}
		for name := range v.addrNames {
			if pv, ok := v.params[name]; ok {
				ov[name] = pv
			}
		}
		se.oldVars = ov
	}
	return se
}

// baseVars: parameters, free variables (dereferenced), address-taken locals (dereferenced).
func (v *Verifier) baseVars(st *State) map[string]Value {
	vars := map[string]Value{}
	for k, val := range v.params {
		vars[k] = val
	}
	// entry values of parameters: "<name>0" (a parameter that the body reassigns is shadowed by its current value in loop
	// clauses; the entry value stays reachable under this name unless the function has something else called so)
	for k, val := range v.params {
		if _, clash := v.params[k+"0"]; !clash {
			vars[k+"0"] = val
		}
	}
	for name, ptr := range v.freeDeref {
		vars[name] = v.loadAddr(st, ptr, nil)
		vars["&"+name] = ptr
	}
	for name, a := range v.addrNames {
		if pv, ok := st.regs[a]; ok {
			if _, isStruct := a.Type().(*types.Pointer).Elem().Underlying().(*types.Struct); isStruct {
				vars[name] = pv // struct locals are referred to by reference
			} else if _, isArr := a.Type().(*types.Pointer).Elem().Underlying().(*types.Array); !isArr {
				vars[name] = v.loadAddr(st, pv, nil)
			}
		}
	}
	return vars
}

// localVars adds named SSA locals visible at block b.
func (v *Verifier) localVars(st *State, b *ssa.BasicBlock, vars map[string]Value) {
	type cand struct {
		val ssa.Value
		idx int
	}
	best := map[string]cand{}
	for val, names := range v.dbg {
		in, ok := val.(ssa.Instruction)
		if !ok {
			continue
		}
		blk := in.Block()
		if blk == nil || !(blk == b || blk.Dominates(b)) {
			continue
		}
		if _, ok := st.regs[val]; !ok {
			continue
		}
		// order: dominator depth first (a dominated block is later), then position within the block
		pos := 0
		for i, x := range blk.Instrs {
			if x == in {
				pos = i
				break
			}
		}
		depth := 0
		for d := blk; d != nil; d = d.Idom() {
			depth++
		}
		rank := depth*100000 + pos
		for _, n := range names {
			if c, ok := best[n]; !ok || rank > c.idx {
				best[n] = cand{val, rank}
			}
		}
	}
	for n, c := range best {
		if _, isParam := v.params[n]; isParam {
			continue
		}
		vars[n] = st.regs[c.val]
	}
}

// localVarsAll is localVars without the parameter filter: a reassigned parameter is available as "name$".
func (v *Verifier) localVarsAll(st *State, b *ssa.BasicBlock, vars map[string]Value) {
	tmp := map[string]Value{}
	saved := v.params
	v.params = map[string]Value{}
	v.localVars(st, b, tmp)
	v.params = saved
	for n, val := range tmp {
		if _, isParam := v.params[n]; isParam {
			vars[n+"$"] = val
		} else {
			vars[n] = val
		}
	}
}

// ---------- entry ----------

type FuncResult struct {
	Key         string
	Obls        []*Obligation
	Unsupported string
	Notes       []string
	Paths       int
	Trusted     []string
	Assumes     int
	ContractErr string
}

func (v *Verifier) run() (res *FuncResult) {
	res = &FuncResult{Key: v.key}
	defer func() {
		if r := recover(); r != nil {
			switch e := r.(type) {
			case unsupportedErr:
				res.Unsupported = e.msg
			case specErr:
				res.ContractErr = e.msg
			default:
				panic(r)
			}
		}
		// an exit clause that was never put to the test on any path would pass silently: refuse it
		if res.ContractErr == "" && res.Unsupported == "" {
			for _, lo := range v.loops {
				if lo.spec != nil && len(lo.spec.Exits) > 0 && !v.exitChecked[lo.ordinal] {
					res.ContractErr = fmt.Sprintf("loop %d: exit clause is never checked (the loop is left only by returns, or directly into a returning block)", lo.ordinal)
				}
			}
		}
		res.Obls = v.obls
		res.Notes = v.notes
		res.Paths = v.paths
		res.Assumes = v.assumeCount
		if v.partialSkipped > 0 {
			v.notes = append(v.notes, fmt.Sprintf("partial contract: %d implicit obligations (no-panic, callee preconditions, frame) of %s are assumed, not proved", v.partialSkipped, v.key))
			res.Notes = v.notes
		}
		res.Trusted = sortedNames(v.trustedUsed)
	}()
	if len(v.fn.Blocks) == 0 {
		v.unsupportedf("function has no body")
	}
	v.analyse()
	v.env.ownedMaps = map[string]bool{}
	for k := range v.prog.owned {
		parts := strings.Split(k, ".")
		if tp := v.prog.typPkgs[parts[0]]; tp != nil {
			if tn, ok := tp.Scope().Lookup(parts[1]).(*types.TypeName); ok {
				v.env.ownedMaps[fieldMapName(tn.Type(), parts[2])] = true
			}
		}
	}
	v.env.revealed = map[string]bool{}
	if v.contract != nil {
		for _, r := range v.contract.Reveal {
			v.env.revealed[r] = true
		}
	}
	st := &State{heap: map[string]string{}, hsort: map[string]string{}, regs: map[ssa.Value]Value{}, measure: map[int]string{}, inLoop: map[int]bool{}}
	st.alloc = v.env.ctx.declConst("alloc!0", "Int")
	st.assume("(>= alloc!0 0)")
	// parameters
	for i, p := range v.fn.Params {
		val := v.freshValue(st, "p."+p.Name(), p.Type())
		if _, isInt := intRangeOK(p.Type()); isInt {
			st.addCand(val.T)
		}
		st.regs[p] = val
		v.params[p.Name()] = val
		st.assume(v.env.typeFacts(st, val))
		if i == 0 && v.fn.Signature.Recv() != nil {
			if _, ok := p.Type().Underlying().(*types.Pointer); ok && val.Addr == nil {
				st.assume("(> " + val.T + " 0)") // receivers are non-nil (checked at call sites)
			}
		}
	}
	for _, fv := range v.fn.FreeVars {
		val := v.freshValue(st, "fv."+fv.Name(), fv.Type())
		st.regs[fv] = val
		st.assume(v.env.typeFacts(st, val))
		if val.Addr == nil {
			st.assume("(> " + val.T + " 0)")
		}
		v.freeDeref[fv.Name()] = val
	}
	// the captured variables of a closure are different variables: their cells are pairwise distinct
	for i, a := range v.fn.FreeVars {
		for _, b := range v.fn.FreeVars[i+1:] {
			va, vb := st.regs[a], st.regs[b]
			if va.Sort == "Int" && vb.Sort == "Int" && va.T != "" && vb.T != "" {
				st.assume(not(eq(va.T, vb.T)))
			}
		}
	}
	v.entry = st.snapshot()
	v.assumeAxioms(st)
	if v.contract != nil {
		se := v.specEnv(st, v.baseVars(st))
		se.old = nil
		for _, r := range v.contract.Requires {
			st.assume(se.evalBool(r.E))
		}
		se.oldAbs = v.invOld
		for _, inv := range v.contract.Invariants {
			st.assume(se.evalBool(inv.E))
		}
		se.oldAbs = nil
		for _, a := range v.contract.Assumes {
			st.assume(se.evalBool(a.E))
			v.assumeCount++
			v.notes = append(v.notes, "assume "+a.Label+": "+a.Text)
		}
		v.emitCover(st, "pre", "true", "precondition is satisfiable")
		for _, en := range v.contract.Ensures {
			if en.Assumed {
				v.assumeCount++
				v.notes = append(v.notes, "assume (unproved postcondition of "+v.key+", used at its call sites) "+en.Label+": "+en.Text)
			}
		}
		if v.contract.Decreases != nil {
			v.measure0 = se.eval(v.contract.Decreases.E).T
		}
	}
	v.execBlock(v.fn.Blocks[0], nil, st)
	return res
}

// assumeAxioms assumes the declared axioms (facts about package-level variables established by
// package initialisation). They are listed as assumptions in the evidence.
func (v *Verifier) assumeAxioms(st *State) {
	for _, a := range v.prog.axioms {
		func() {
			defer func() {
				if r := recover(); r != nil {
					if _, ok := r.(specErr); ok {
						return
					}
					panic(r)
				}
			}()
			se := &SpecEnv{e: v.env, s: st, old: nil, vars: map[string]Value{}, pkg: a.Pkg, qn: &v.qn}
			f := se.evalBool(a.E)
			if v.env.ctx.specAxioms == nil {
				v.env.ctx.specAxioms = map[string]bool{}
			}
			v.env.ctx.specAxioms[f] = true
			st.assume(f)
		}()
	}
}

// autoInvariants: for range-index style counters (phi initialised with a constant and increased
// by a positive constant on every back edge) the bounds "phi >= init" and, when the loop guard
// is "phi + c < X" with X defined outside the loop, "phi < X" are added as checked invariants.
func (v *Verifier) autoInvariants(li *loopInfo) []*Clause {
	var out []*Clause
	for i, ph := range li.phis {
		if _, _, ok := intRange(ph.Type()); !ok {
			continue
		}
		var init *ssa.Const
		var step *ssa.BinOp
		okPat := true
		for j, e := range ph.Edges {
			pred := li.head.Preds[j]
			if !li.body[pred] {
				c, isC := e.(*ssa.Const)
				if !isC || c.Value == nil {
					okPat = false
					break
				}
				if init != nil && init.Value.ExactString() != c.Value.ExactString() {
					okPat = false
					break
				}
				init = c
			} else {
				bo, isB := e.(*ssa.BinOp)
				if !isB || bo.Op != token.ADD {
					okPat = false
					break
				}
				cc, isC := bo.Y.(*ssa.Const)
				if bo.X != ssa.Value(ph) || !isC || cc.Value == nil || constant.Sign(cc.Value) <= 0 {
					okPat = false
					break
				}
				step = bo
			}
		}
		if !okPat || init == nil {
			continue
		}
		idx := i
		lit := bigLit(init.Value.ExactString())
		lo := &Clause{Label: fmt.Sprintf("auto%d.lo", i), Text: fmt.Sprintf("phi%d >= %s (inferred counter bound)", i, init.Value.ExactString()),
			Raw: func(phis []Value, operand func(interface{}) string) string {
				return "(>= " + phis[idx].T + " " + lit + ")"
			}}
		// counting loop `for i := c; i < X; i += d`: the guard phi < X in the head block keeps the step from wrapping, so the
		// lower bound alone is inductive
		stepOne := false
		if step != nil {
			if cc, ok := step.Y.(*ssa.Const); ok && cc.Value != nil && cc.Value.ExactString() == "1" {
				stepOne = true
			}
		}
		if stepOne && step.Block() != li.head && li.body[step.Block()] {
			if ifi, ok := li.head.Instrs[len(li.head.Instrs)-1].(*ssa.If); ok {
				if cmp, ok := ifi.Cond.(*ssa.BinOp); ok && cmp.Op == token.LSS && cmp.X == ssa.Value(ph) && len(li.head.Succs) == 2 && li.body[li.head.Succs[0]] {
					out = append(out, lo)
				}
			}
		}
		// guard of the form (phi + c) < X in the head block, X defined outside the loop; the lower
		// bound alone is not inductive (wrap-around), so both bounds are added together or not at all
		if step != nil && step.Block() == li.head {
			if ifi, ok := li.head.Instrs[len(li.head.Instrs)-1].(*ssa.If); ok {
				if cmp, ok := ifi.Cond.(*ssa.BinOp); ok && cmp.Op == token.LSS && cmp.X == ssa.Value(step) {
					outside := true
					if in, ok := cmp.Y.(ssa.Instruction); ok && in.Block() != nil && li.body[in.Block()] {
						outside = false
					}
					if outside {
						bound := cmp.Y
						out = append(out, lo)
						out = append(out, &Clause{Label: fmt.Sprintf("auto%d.hi", i), Text: fmt.Sprintf("phi%d < loop bound (inferred counter bound)", i),
							Raw: func(phis []Value, operand func(interface{}) string) string {
								return "(< " + phis[idx].T + " " + operand(bound) + ")"
							}})
					}
				}
			}
		}
	}
	return out
}

// freshValue creates an unconstrained symbolic value of a Go type.
func (v *Verifier) freshValue(st *State, hint string, t types.Type) Value {
	if tup, ok := t.(*types.Tuple); ok {
		var vs []Value
		for i := 0; i < tup.Len(); i++ {
			vs = append(vs, v.freshValue(st, fmt.Sprintf("%s.%d", hint, i), tup.At(i).Type()))
		}
		return Value{Tuple: vs, GoT: t}
	}
	srt := v.env.sr.sortOf(t)
	c := v.env.ctx.freshConst(hint, srt)
	val := Value{T: c, Sort: srt, GoT: t}
	if p, ok := t.Underlying().(*types.Pointer); ok {
		if _, isStruct := p.Elem().Underlying().(*types.Struct); !isStruct {
			if _, isArr := p.Elem().Underlying().(*types.Array); !isArr {
				// pointer to a non-struct: a cell reference
				es := v.env.sr.sortOf(p.Elem())
				val.Addr = &Addr{Kind: "cell", Map: cellMapName(es), Obj: c, ElemT: p.Elem()}
			}
		}
	}
	return val
}

// ---------- block execution ----------

func (v *Verifier) execBlock(b *ssa.BasicBlock, pred *ssa.BasicBlock, st *State) {
	st.trace = append(st.trace, fmt.Sprintf("%d", b.Index))
	if len(st.trace) > 400 {
		v.unsupportedf("path too long (missing loop cut?)")
	}
	// phi evaluation (simultaneous)
	var phiVals []Value
	var phis []*ssa.Phi
	if pred != nil {
		pi := -1
		for i, p := range b.Preds {
			if p == pred {
				pi = i
				break
			}
		}
		for _, in := range b.Instrs {
			ph, ok := in.(*ssa.Phi)
			if !ok {
				break
			}
			phis = append(phis, ph)
			phiVals = append(phiVals, v.operand(st, ph.Edges[pi]))
		}
	}
	// leaving a loop for the code after it: the loop's exit clauses are proved on this edge
	if pred != nil {
		for _, lo := range v.loops {
			if lo.spec == nil || len(lo.spec.Exits) == 0 || !lo.body[pred] || lo.body[b] || lo.head == b {
				continue
			}
			if len(b.Instrs) > 0 && pred != lo.head {
				if _, isRet := b.Instrs[len(b.Instrs)-1].(*ssa.Return); isRet {
					// a return from inside the loop body is not an exit to the code after it (an edge from the loop
					// head is the loop condition failing, even when the code after the loop returns at once)
					continue
				}
			}
			cur := make([]Value, len(lo.phis))
			for i, ph := range lo.phis {
				cur[i] = st.regs[ph]
			}
			se := v.specEnv(st, v.loopVars(lo, st, lo.phis, cur))
			se.loopSt = st.loopEntry[lo.ordinal]
			if v.exitChecked == nil {
				v.exitChecked = map[int]bool{}
			}
			v.exitChecked[lo.ordinal] = true
			for _, ex := range lo.spec.Exits {
				v.emit(st, "exit", fmt.Sprintf("%d.%s", lo.ordinal, ex.Label), se.evalBool(ex.E), ex.Props, "on leaving loop "+fmt.Sprint(lo.ordinal)+": "+ex.Text, nil)
			}
		}
	}
	if li := v.loops[b]; li != nil {
		isBack := pred != nil && li.body[pred]
		if isBack {
			v.loopBack(li, st, phis, phiVals)
			v.paths++
			return
		}
		v.loopEnter(li, st, phis, phiVals)
	} else {
		for i, ph := range phis {
			st.regs[ph] = phiVals[i]
		}
	}
	for _, in := range b.Instrs {
		if _, ok := in.(*ssa.Phi); ok {
			continue
		}
		switch x := in.(type) {
		case *ssa.If:
			c := v.operand(st, x.Cond)
			s2 := st.clone()
			st.assume(c.T)
			s2.assume(not(c.T))
			if v.contract != nil && len(v.contract.AssumeDead) > 0 {
				// a branch the contract assumes dead (a listed assumption about control flow)
				dead := func(blk *ssa.BasicBlock) string {
					// keyed by a store or call the branch starts with - "store:<field>" / "call:<callee>" - which
					// survives edits elsewhere in the file, or (older form) by file:line of its first instruction
					for k, lbl := range v.contract.AssumeDead {
						if strings.HasPrefix(k, "store:") {
							want := strings.TrimPrefix(k, "store:")
							for _, in := range blk.Instrs {
								if st, ok := in.(*ssa.Store); ok {
									if fa, ok := st.Addr.(*ssa.FieldAddr); ok {
										if pt, ok := fa.X.Type().Underlying().(*types.Pointer); ok {
											if stt, ok := pt.Elem().Underlying().(*types.Struct); ok && stt.Field(fa.Field).Name() == want {
												return k + " " + lbl
											}
										}
									}
								}
							}
						}
						if strings.HasPrefix(k, "call:") {
							want := strings.TrimPrefix(k, "call:")
							for _, in := range blk.Instrs {
								if c, ok := in.(ssa.CallInstruction); ok {
									if f := c.Common().StaticCallee(); f != nil && f.Name() == want {
										return k + " " + lbl
									}
								}
							}
						}
					}
					for _, in := range blk.Instrs {
						if in.Pos().IsValid() {
							p := v.prog.ssaProg.Fset.Position(in.Pos())
							k := fmt.Sprintf("%s:%d", filepath.Base(p.Filename), p.Line)
							if lbl, ok := v.contract.AssumeDead[k]; ok {
								return k + " " + lbl
							}
							// line relative to the line of the func keyword: unaffected by edits outside the function
							if v.fn.Pos().IsValid() {
								k2 := fmt.Sprintf("func+%d", p.Line-v.prog.ssaProg.Fset.Position(v.fn.Pos()).Line)
								if lbl, ok := v.contract.AssumeDead[k2]; ok {
									return k2 + " " + lbl
								}
							}
							return ""
						}
					}
					return ""
				}
				d0, d1 := dead(b.Succs[0]), dead(b.Succs[1])
				if d0 != "" || d1 != "" {
					if d0 != "" {
						v.noteOnce("assume branch at " + d0 + " is never taken (assumedead)")
						st = nil
					}
					if d1 != "" {
						v.noteOnce("assume branch at " + d1 + " is never taken (assumedead)")
						s2 = nil
					}
					if st != nil {
						v.execBlock(b.Succs[0], b, st)
					}
					if s2 != nil {
						v.execBlock(b.Succs[1], b, s2)
					}
					return
				}
			}
			if v.contract != nil && v.contract.Prune {
				if v.infeasible(st) {
					v.notes = append(v.notes, fmt.Sprintf("branch in block %d (%s) on %s at %s: true side proved infeasible and skipped", b.Index, b.Comment, x.Cond.Name(), v.posOf(x)))
				} else {
					v.execBlock(b.Succs[0], b, st)
				}
				if v.infeasible(s2) {
					v.notes = append(v.notes, fmt.Sprintf("branch in block %d (%s) on %s at %s: false side proved infeasible and skipped", b.Index, b.Comment, x.Cond.Name(), v.posOf(x)))
				} else {
					v.execBlock(b.Succs[1], b, s2)
				}
				return
			}
			v.execBlock(b.Succs[0], b, st)
			v.execBlock(b.Succs[1], b, s2)
			return
		case *ssa.Jump:
			v.execBlock(b.Succs[0], b, st)
			return
		case *ssa.Return:
			v.doReturn(st, x)
			o := v.emit1(st, "cover.ret", v.siteLabel(x)+"@"+fmtPath(st), "true", nil, "return reachable (informational)", x)
			o.Cover = true
			o.Info = true
			v.paths++
			return
		case *ssa.Panic:
			if !v.panicAllowed("explicit") {
				v.emit(st, "nopanic.explicit", v.siteLabel(x), "false", nil, "explicit panic reachable", x)
			}
			v.paths++
			return
		default:
			v.execInstr(st, in)
			if val, ok := in.(ssa.Value); ok {
				v.nameReg(st, val)
			}
		}
		if v.paths > v.maxPaths {
			v.unsupportedf("too many paths (> %d)", v.maxPaths)
		}
	}
}

// infeasible: is the path condition contradictory (decided by the solvers with a short limit)?
func (v *Verifier) infeasible(st *State) bool {
	dir := filepath.Join(verifDir, ".work", "prune")
	os.MkdirAll(dir, 0o755)
	v.pruneN++
	file := filepath.Join(dir, fmt.Sprintf("%s_%d.smt2", safeName(v.key), v.pruneN))
	// ground phase first (quantified hypotheses replaced by their instances), then the full query
	lite := v.env.ctx.render(st.pc, "false", false, st.cands, st.lens, true)
	lfile := strings.TrimSuffix(file, ".smt2") + ".lite.smt2"
	os.WriteFile(lfile, []byte(lite), 0o644)
	stt, _, _ := runSolver(context.Background(), solvers[0], lfile, 6)
	return stt == "unsat"
}

// nameReg replaces a large register term by a fresh constant defined equal to it.
func (v *Verifier) nameReg(st *State, x ssa.Value) {
	val, ok := st.regs[x]
	if !ok {
		return
	}
	if val.Tuple != nil {
		for i := range val.Tuple {
			val.Tuple[i] = v.nameVal(st, x.Name(), val.Tuple[i])
		}
		st.regs[x] = val
		return
	}
	st.regs[x] = v.nameVal(st, x.Name(), val)
}

func (v *Verifier) nameVal(st *State, hint string, val Value) Value {
	if val.Addr != nil || val.T == "" || len(val.T) < 48 || val.Sort == "" {
		return val
	}
	c := v.env.ctx.freshConst(hint, val.Sort)
	st.assume(eq(c, val.T))
	val.T = c
	return val
}

func (v *Verifier) noteOnce(n string) {
	for _, x := range v.notes {
		if x == n {
			return
		}
	}
	v.notes = append(v.notes, n)
}

func (v *Verifier) panicAllowed(kind string) bool {
	if v.contract == nil {
		return false
	}
	for _, k := range v.contract.AllowPanic {
		if k == kind {
			return true
		}
	}
	return false
}

// loopVars builds the variable environment at a loop head with given phi values.
func (v *Verifier) loopVars(li *loopInfo, st *State, phis []*ssa.Phi, vals []Value) map[string]Value {
	vars := v.baseVars(st)
	v.localVars(st, li.head, vars)
	for i, ph := range phis {
		if ph.Comment != "" {
			vars[ph.Comment] = vals[i]
		}
		for _, n := range v.phiAlias[ph] {
			vars[n] = vals[i]
		}
		vars[fmt.Sprintf("phi%d", i)] = vals[i]
	}
	if li.spec != nil {
		for name, k := range li.spec.Binds {
			if k < len(vals) {
				vars[name] = vals[k]
			}
		}
	}
	// the hidden index of an enclosing `for ... range` loop K is visible in the clauses of an inner loop as "rangeindexK"
	for _, lo := range v.loops {
		if lo == li || !lo.body[li.head] {
			continue
		}
		for _, in := range lo.head.Instrs {
			ph, ok := in.(*ssa.Phi)
			if !ok {
				break
			}
			if ph.Comment == "rangeindex" {
				if val, ok := st.regs[ph]; ok {
					vars[fmt.Sprintf("rangeindex%d", lo.ordinal)] = val
				}
			}
		}
	}
	// Invariants written for a `for ... range` loop name its hidden index "rangeindex" (index of the last element handled). When
	// the loop has been rewritten as a counting loop (one integer variable that starts at 0 and is incremented by 1), the same
	// invariants keep their meaning with rangeindex = counter - 1.
	if _, ok := vars["rangeindex"]; !ok {
		found := -1
		for i, ph := range phis {
			if b, ok := ph.Type().Underlying().(*types.Basic); !ok || b.Info()&types.IsInteger == 0 {
				continue
			}
			zero, inc := false, false
			for _, e := range ph.Edges {
				if c, ok := e.(*ssa.Const); ok && c.Value != nil && c.Value.String() == "0" {
					zero = true
				}
				if bo, ok := e.(*ssa.BinOp); ok && bo.Op == token.ADD && bo.X == ssa.Value(ph) {
					if c, ok := bo.Y.(*ssa.Const); ok && c.Value != nil && c.Value.String() == "1" {
						inc = true
					}
				}
			}
			if zero && inc {
				if found >= 0 {
					found = -2
					break
				}
				found = i
			}
		}
		if found >= 0 {
			vars["rangeindex"] = Value{T: "(- " + vals[found].T + " 1)", Sort: "Int", GoT: types.Typ[types.Int]}
		}
	}
	return vars
}

func (v *Verifier) loopEnter(li *loopInfo, st *State, phis []*ssa.Phi, vals []Value) {
	if len(phis) == 0 {
		// first block entry (pred == nil cannot be a loop head with phis) or loop without phis
		phis = li.phis
		if len(vals) != len(phis) {
			if len(phis) > 0 {
				v.unsupportedf("loop head entered without predecessor")
			}
		}
	}
	lbl := fmt.Sprintf("%d", li.ordinal)
	if st.loopEntry == nil {
		st.loopEntry = map[int]*State{}
	}
	st.loopEntry[li.ordinal] = st.snapshot()
	if li.spec != nil {
		se := v.specEnv(st, v.loopVars(li, st, phis, vals))
		se.loopSt = st.loopEntry[li.ordinal]
		for _, inv := range li.spec.Invariants {
			v.emit(st, "inv.init", lbl+"."+inv.Label, v.evalInv(se, st, inv, vals), inv.Props, inv.Text, nil)
		}
	}
	// havoc everything the loop body may write
	v.havocLoop(li, st)
	newVals := make([]Value, len(phis))
	for i, ph := range phis {
		nv := v.freshValue(st, "loop."+phName(ph, i), ph.Type())
		if nv.Sort == "Int" && nv.Addr == nil {
			if _, isInt := intRangeOK(ph.Type()); isInt {
				st.addCand(nv.T)
			}
		}
		st.assume(v.env.typeFacts(st, nv))
		st.regs[ph] = nv
		newVals[i] = nv
	}
	if li.spec != nil {
		se := v.specEnv(st, v.loopVars(li, st, phis, newVals))
		se.loopSt = st.loopEntry[li.ordinal]
		for _, inv := range li.spec.Invariants {
			st.assume(v.evalInv(se, st, inv, newVals))
		}
		if li.spec.Decreases != nil {
			m := se.eval(li.spec.Decreases.E)
			st.measure[li.ordinal] = m.T
		}
	}
}

func (v *Verifier) evalInv(se *SpecEnv, st *State, inv *Clause, phis []Value) string {
	if inv.Raw != nil {
		return inv.Raw(phis, func(x interface{}) string { return v.operand(st, x.(ssa.Value)).T })
	}
	return se.evalBool(inv.E)
}

func phName(ph *ssa.Phi, i int) string {
	if ph.Comment != "" {
		return ph.Comment
	}
	return fmt.Sprintf("phi%d", i)
}

func (v *Verifier) loopBack(li *loopInfo, st *State, phis []*ssa.Phi, vals []Value) {
	lbl := fmt.Sprintf("%d", li.ordinal)
	if li.spec == nil {
		for _, f := range v.frameFormulas(st, true) {
			v.emit(st, "frame.loop", lbl+"."+mangle(f.name), f.formula, nil, "loop "+lbl+": writes to "+f.name+" stay inside the modifies clause (or fresh objects)", nil)
		}
		return
	}
	se := v.specEnv(st, v.loopVars(li, st, phis, vals))
	se.loopSt = st.loopEntry[li.ordinal]
	for _, inv := range li.spec.Invariants {
		v.emit(st, "inv.preserve", lbl+"."+inv.Label, v.evalInv(se, st, inv, vals), inv.Props, inv.Text, nil)
	}
	for _, f := range v.frameFormulas(st, true) {
		v.emit(st, "frame.loop", lbl+"."+mangle(f.name), f.formula, nil, "loop "+lbl+": writes to "+f.name+" stay inside the modifies clause (or fresh objects)", nil)
	}
	if li.spec.Decreases != nil {
		m0 := st.measure[li.ordinal]
		m := se.eval(li.spec.Decreases.E)
		v.emit(st, "dec.loop", lbl, and("(>= "+m0+" 0)", "(< "+m.T+" "+m0+")"), nil, li.spec.Decreases.Text, nil)
	}
}

// havocLoop havocs all heap maps that may be written inside the loop.
func (v *Verifier) havocLoop(li *loopInfo, st *State) {
	maps := map[string]string{} // name -> sort
	all := false
	onlyCallbacks := true
	var allKeep map[string]bool
	// local cells (address-taken / captured variables) written in the loop: only those cells are
	// havocked, the other cells of the same sort keep their values
	cellRefs := map[string][]string{}
	cellWhole := map[string]bool{}
	for b := range li.body {
		for _, in := range b.Instrs {
			switch x := in.(type) {
			case *ssa.Store:
				if al, ok := x.Addr.(*ssa.Alloc); ok {
					if pv, ok := st.regs[al]; ok && pv.Addr != nil && pv.Addr.Kind == "cell" {
						cellRefs[pv.Addr.Map] = append(cellRefs[pv.Addr.Map], pv.Addr.Obj)
						maps[pv.Addr.Map] = arr("Int", v.env.sr.sortOf(pv.Addr.ElemT))
						continue
					}
				}
				before := len(maps)
				_ = before
				pre := map[string]bool{}
				for n := range maps {
					pre[n] = true
				}
				v.storeTargets(x.Addr, x.Val.Type(), maps)
				for n := range maps {
					if strings.HasPrefix(n, "C!") && !pre[n] {
						cellWhole[n] = true
					}
				}
				if _, isAlloc := x.Addr.(*ssa.Alloc); !isAlloc {
					// store through a pointer of unknown origin into a cell map
					if pt, ok := x.Addr.Type().Underlying().(*types.Pointer); ok {
						if _, isStruct := pt.Elem().Underlying().(*types.Struct); !isStruct {
							if _, isFA := x.Addr.(*ssa.FieldAddr); !isFA {
								if _, isIA := x.Addr.(*ssa.IndexAddr); !isIA {
									cellWhole[cellMapName(v.env.sr.sortOf(pt.Elem()))] = true
								}
							}
						}
					}
				}
			case *ssa.Next:
				if !x.IsString {
					if rg, ok := x.Iter.(*ssa.Range); ok {
						if mt, ok := rg.X.Type().Underlying().(*types.Map); ok {
							if n := v.rangeName[x.Iter]; n != "" {
								maps[n] = arr(v.env.sr.sortOf(mt.Key()), "Bool")
							}
						}
					}
				}
			case *ssa.MapUpdate:
				mt := x.Map.Type().Underlying().(*types.Map)
				mv, mp, vs, ks := v.env.mapNames(mt)
				maps[mv] = arr("Int", arr(ks, vs))
				maps[mp] = arr("Int", arr(ks, "Bool"))
				maps[v.env.mlName(mt)] = arr("Int", "Int")
			case *ssa.Call:
				if pr, ok := x.Common().Value.(*ssa.Parameter); ok && v.contract != nil && v.contract.Callbacks[pr.Name()] != nil {
					// call of a callback parameter: everything but the preserved maps may change
					keep := v.callbackKeep(st, v.contract.Callbacks[pr.Name()])
					if !all {
						allKeep = keep
					} else {
						nk := map[string]bool{}
						for n := range keep {
							if allKeep[n] {
								nk[n] = true
							}
						}
						allKeep = nk
					}
					all = true
					continue
				}
				if v.callMods(x.Common(), maps) {
					onlyCallbacks = false
					if !all || len(allKeep) > 0 {
						v.notes = append(v.notes, fmt.Sprintf("loop %d: no frame known for the call at %s (%s)", li.ordinal, v.posOf(x), x.Common().String()))
					}
					all = true
					allKeep = nil
				}
			case *ssa.Defer:
				if v.callMods(x.Common(), maps) {
					all = true
					onlyCallbacks = false
				}
			case *ssa.Go:
				all = true
				onlyCallbacks = false
			}
		}
	}
	if all {
		// everything (except what every callback in the loop preserves) may change, including maps
		// not read so far (epoch mechanism of havocAllExcept)
		if len(allKeep) == 0 {
			v.notes = append(v.notes, fmt.Sprintf("loop %d: contains a call without a frame; every heap map is havocked", li.ordinal))
		}
		for n := range maps {
			delete(allKeep, n) // written directly in the loop as well
		}
		uw := st.unknownWrites
		v.havocAllExcept(st, allKeep)
		if onlyCallbacks {
			// callback effects are charged to the closure at the caller's call site: own writes are
			// measured from here on
			st.unknownWrites = uw
			v.frameCheckpoint(st)
		}
		return
	}
	names := make([]string, 0, len(maps))
	for n := range maps {
		names = append(names, n)
	}
	sort.Strings(names)
	for _, n := range names {
		if refs, ok := cellRefs[n]; ok && !cellWhole[n] && !all && !v.callsWriteCells(li, n) {
			srt := maps[n]
			inner := strings.TrimSuffix(strings.TrimPrefix(srt, "(Array Int "), ")")
			term := v.env.heapGet(st, n, srt)
			for _, r := range refs {
				term = sto(term, r, v.env.ctx.freshConst("hv."+n, inner))
			}
			v.env.heapSet(st, n, srt, term)
			continue
		}
		v.env.heapHavoc(st, n, maps[n])
	}
	// the function's modifies clause is an implicit loop invariant: outside it (and outside
	// objects allocated since entry) nothing has changed since entry. Assumed here, checked at
	// every back edge (frame.loop obligations) and at every return (frame obligations).
	if v.contract != nil && !all {
		for _, f := range v.frameFormulas(st, false) {
			st.assume(f.formula)
		}
	}
	// allocation counter may grow
	na := v.env.ctx.freshConst("alloc", "Int")
	st.assume("(>= " + na + " " + st.alloc + ")")
	st.alloc = na
}

// callsWriteCells: does some call inside the loop possibly modify cell map n?
func (v *Verifier) callsWriteCells(li *loopInfo, n string) bool {
	for b := range li.body {
		for _, in := range b.Instrs {
			var cc *ssa.CallCommon
			switch x := in.(type) {
			case *ssa.Call:
				cc = x.Common()
			case *ssa.Defer:
				cc = x.Common()
			case *ssa.Go:
				return true
			}
			if cc == nil {
				continue
			}
			m := map[string]string{}
			if v.callMods(cc, m) {
				return true
			}
			if _, ok := m[n]; ok {
				return true
			}
		}
	}
	return false
}

// storeTargets computes the heap maps a store through addr may write.
func (v *Verifier) storeTargets(addr ssa.Value, valT types.Type, maps map[string]string) {
	switch a := addr.(type) {
	case *ssa.FieldAddr:
		pt := a.X.Type().Underlying().(*types.Pointer).Elem()
		v.fieldMaps(pt, a.Field, maps)
	case *ssa.IndexAddr:
		var elemT types.Type
		switch u := a.X.Type().Underlying().(type) {
		case *types.Slice:
			elemT = u.Elem()
		case *types.Pointer:
			elemT = u.Elem().Underlying().(*types.Array).Elem()
		}
		es := v.env.sr.sortOf(elemT)
		maps[elemMapNameT(elemT)] = arr("Int", arr("Int", es))
	default:
		pt, ok := addr.Type().Underlying().(*types.Pointer)
		if !ok {
			return
		}
		if st, ok := pt.Elem().Underlying().(*types.Struct); ok {
			for i := 0; i < st.NumFields(); i++ {
				v.fieldMaps(pt.Elem(), i, maps)
			}
			return
		}
		es := v.env.sr.sortOf(pt.Elem())
		maps[cellMapName(es)] = arr("Int", es)
	}
}

func (v *Verifier) fieldMaps(structT types.Type, idx int, maps map[string]string) {
	st := structT.Underlying().(*types.Struct)
	f := st.Field(idx)
	if fs, ok := f.Type().Underlying().(*types.Struct); ok {
		for i := 0; i < fs.NumFields(); i++ {
			v.fieldMaps(f.Type(), i, maps)
		}
		return
	}
	maps[fieldMapName(structT, f.Name())] = arr("Int", v.env.sr.sortOf(f.Type()))
}

// ---------- operands ----------

func (v *Verifier) operand(st *State, x ssa.Value) Value {
	switch c := x.(type) {
	case *ssa.Const:
		return v.constVal(c)
	case *ssa.Global:
		// address of a global: represented as a global address
		// (loads and stores go through Addr; as a pointer value it is an object allocated before entry)
		ga := "GA!" + shortPkg(c.Pkg.Pkg.Path()) + "." + c.Name()
		if !v.env.ctx.declared[ga] {
			v.env.ctx.declConst(ga, "Int")
			v.env.ctx.axiom("(and (> " + ga + " 0) (<= " + ga + " alloc!0))")
		}
		return Value{T: ga, Sort: "Int", GoT: c.Type(), Addr: &Addr{Kind: "global", Global: c.Name(), ElemT: c.Type().(*types.Pointer).Elem(), Obj: shortPkg(c.Pkg.Pkg.Path())}}
	case *ssa.Function:
		ref := "fn!" + mangle(funcKey(c))
		v.env.ctx.declConst(ref, "Int")
		v.env.ctx.axiom("(> " + ref + " 0)")
		v.closures[ref] = &closureInfo{fn: c}
		return Value{T: ref, Sort: "Int", GoT: c.Type()}
	case *ssa.Builtin:
		return Value{T: "builtin", Sort: "Int", GoT: c.Type()}
	}
	if val, ok := st.regs[x]; ok {
		return val
	}
	v.unsupportedf("use of undefined SSA value %s (%T) in %s", x.Name(), x, v.key)
	return Value{}
}

func (v *Verifier) constVal(c *ssa.Const) Value {
	t := c.Type()
	if c.Value == nil {
		// zero value / nil
		if _, ok := t.Underlying().(*types.Basic); ok && t.Underlying().(*types.Basic).Kind() == types.UntypedNil {
			return Value{T: "0", Sort: "Int", GoT: t}
		}
		return Value{T: v.env.zero(t), Sort: v.env.sr.sortOf(t), GoT: t}
	}
	switch c.Value.Kind() {
	case constant.Bool:
		if constant.BoolVal(c.Value) {
			return Value{T: "true", Sort: "Bool", GoT: t}
		}
		return Value{T: "false", Sort: "Bool", GoT: t}
	case constant.Int:
		if b, ok := t.Underlying().(*types.Basic); ok && b.Info()&types.IsFloat != 0 {
			return Value{T: bigLit(c.Value.ExactString()) + ".0", Sort: "Real", GoT: t}
		}
		return Value{T: bigLit(c.Value.ExactString()), Sort: "Int", GoT: t}
	case constant.String:
		return Value{T: v.env.ctx.strLit(constant.StringVal(c.Value)), Sort: "Str", GoT: t}
	case constant.Float:
		f, _ := constant.Float64Val(c.Value)
		return Value{T: fmt.Sprintf("%f", f), Sort: "Real", GoT: t}
	}
	v.unsupportedf("constant %s", c)
	return Value{}
}

// ---------- addresses ----------

// loadAddr loads through a pointer value.
func (v *Verifier) loadAddr(st *State, p Value, in ssa.Instruction) Value {
	if p.Addr == nil {
		// pointer to struct: load the whole struct
		if _, elemT, ok := isStructPtr(p.GoT); ok {
			return v.env.loadStruct(st, elemT, p.T)
		}
		if ca := v.cellAddrOf(p); ca != nil {
			p.Addr = ca
		} else {
			v.unsupportedf("load through unsupported pointer %s : %s", p.T, typeName(p.GoT))
		}
	}
	a := p.Addr
	v.noteAddr(a)
	var root Value
	switch a.Kind {
	case "field", "cell":
		srt := v.env.sr.sortOf(a.ElemT)
		m := v.env.heapGet(st, a.Map, arr("Int", srt))
		root = Value{T: sel2(m, a.Obj), Sort: srt, GoT: a.ElemT}
	case "elem":
		srt := v.env.sr.sortOf(a.ElemT)
		m := v.env.heapGet(st, a.Map, arr("Int", arr("Int", srt)))
		root = Value{T: sel2(sel2(m, a.Obj), a.Idx), Sort: srt, GoT: a.ElemT}
	case "global":
		pk := v.prog.typPkgs[a.Obj]
		if pk == nil {
			v.unsupportedf("global in unknown package %s", a.Obj)
		}
		gv, ok := pk.Scope().Lookup(a.Global).(*types.Var)
		if !ok {
			v.unsupportedf("unknown global %s.%s", a.Obj, a.Global)
		}
		root = v.env.globalValue(st, a.Obj, gv)
	default:
		v.unsupportedf("load from address kind %s", a.Kind)
	}
	cur := root
	for _, s := range a.Path {
		cur = v.env.structField(cur, s.Idx)
	}
	// values read from memory satisfy their type invariants
	if f := v.env.typeFacts(st, cur); f != "true" && a.Kind != "global" {
		st.assume(f)
	}
	return cur
}

// cellAddrOf gives a pointer value that carries no address (one read from a global, a field or a slice) the cell address
// that freshValue gives a pointer-typed unknown: a pointer to a non-struct, non-array type refers to the cell named by
// the pointer value in the cell map of its element sort.
func (v *Verifier) cellAddrOf(p Value) *Addr {
	if p.GoT == nil || p.Sort != "Int" {
		return nil
	}
	pt, ok := p.GoT.Underlying().(*types.Pointer)
	if !ok {
		return nil
	}
	switch pt.Elem().Underlying().(type) {
	case *types.Struct, *types.Array:
		return nil
	}
	es := v.env.sr.sortOf(pt.Elem())
	return &Addr{Kind: "cell", Map: cellMapName(es), Obj: p.T, ElemT: pt.Elem()}
}

func (v *Verifier) storeAddr(st *State, p Value, val Value, in ssa.Instruction) {
	if p.Addr == nil {
		if _, elemT, ok := isStructPtr(p.GoT); ok {
			v.env.storeStruct(st, elemT, p.T, val)
			return
		}
		if ca := v.cellAddrOf(p); ca != nil {
			p.Addr = ca
		} else {
			v.unsupportedf("store through unsupported pointer %s", p.T)
		}
	}
	a := p.Addr
	v.noteAddr(a)
	nv := val
	if len(a.Path) > 0 {
		// rebuild the enclosing datatype value
		root := v.loadAddr(st, Value{T: p.T, Sort: p.Sort, GoT: p.GoT, Addr: &Addr{Kind: a.Kind, Map: a.Map, Obj: a.Obj, Idx: a.Idx, ElemT: a.ElemT, Global: a.Global}}, in)
		nv = v.rebuild(root, a.Path, val)
	}
	if want := v.env.sr.sortOf(a.ElemT); len(a.Path) == 0 && want == "Val" && nv.Sort != "Val" {
		nv = v.env.makeIface(nv)
	}
	switch a.Kind {
	case "field", "cell":
		srt := v.env.sr.sortOf(a.ElemT)
		m := v.env.heapGet(st, a.Map, arr("Int", srt))
		v.env.heapSet(st, a.Map, arr("Int", srt), sto(m, a.Obj, nv.T))
	case "elem":
		srt := v.env.sr.sortOf(a.ElemT)
		ms := arr("Int", arr("Int", srt))
		m := v.env.heapGet(st, a.Map, ms)
		v.env.heapSet(st, a.Map, ms, sto(m, a.Obj, sto(sel2(m, a.Obj), a.Idx, nv.T)))
	default:
		v.unsupportedf("store to address kind %s", a.Kind)
	}
}

func (v *Verifier) noteAddr(a *Addr) {
	switch a.Kind {
	case "field", "cell":
		v.env.noteMapType(a.Map, a.ElemT, a.Kind)
	case "elem":
		v.env.noteMapType(a.Map, a.ElemT, "elem")
	}
}

func (v *Verifier) rebuild(root Value, path []sel, val Value) Value {
	if len(path) == 0 {
		return val
	}
	inner := v.env.structField(root, path[0].Idx)
	nv := v.rebuild(inner, path[1:], val)
	return v.env.withStructField(root, path[0].Idx, nv.T)
}

// fieldAddr computes &x.f
func (v *Verifier) fieldAddr(st *State, in *ssa.FieldAddr) Value {
	x := v.operand(st, in.X)
	pt := in.X.Type().Underlying().(*types.Pointer).Elem()
	stt := pt.Underlying().(*types.Struct)
	f := stt.Field(in.Field)
	if x.Addr != nil {
		// pointer into a datatype value (element of a slice of structs, ...)
		na := *x.Addr
		na.Path = append(append([]sel(nil), x.Addr.Path...), sel{Idx: in.Field, GoT: f.Type()})
		return Value{T: x.T, Sort: "Int", GoT: in.Type(), Addr: &na}
	}
	v.checkNonNil(st, in, x)
	if _, isStruct := f.Type().Underlying().(*types.Struct); isStruct {
		return Value{T: v.env.embRef(pt, f.Name(), x.T), Sort: "Int", GoT: in.Type()}
	}
	return Value{T: x.T, Sort: "Int", GoT: in.Type(), Addr: &Addr{Kind: "field", Map: fieldMapName(pt, f.Name()), Obj: x.T, ElemT: f.Type()}}
}

// ---------- instructions ----------

func (v *Verifier) execInstr(st *State, in ssa.Instruction) {
	switch x := in.(type) {
	case *ssa.DebugRef:
		return
	case *ssa.Alloc:
		st.regs[x] = v.doAlloc(st, x)
	case *ssa.FieldAddr:
		st.regs[x] = v.fieldAddr(st, x)
	case *ssa.Field:
		sv := v.operand(st, x.X)
		st.regs[x] = v.env.structField(sv, x.Field)
	case *ssa.IndexAddr:
		st.regs[x] = v.indexAddr(st, x)
	case *ssa.Index:
		if b, ok := x.X.Type().Underlying().(*types.Basic); ok && b.Info()&types.IsString != 0 {
			sv := v.operand(st, x.X)
			iv := v.operand(st, x.Index)
			v.checkSite(st, x, "index", and("(<= 0 "+iv.T+")", "(< "+iv.T+" (slen "+sv.T+"))"), "string index out of range")
			r := Value{T: app("sat", sv.T, iv.T), Sort: "Int", GoT: x.Type()}
			st.assume(v.env.typeFacts(st, r))
			st.regs[x] = r
			break
		}
		v.unsupportedf("array index by value")
	case *ssa.UnOp:
		st.regs[x] = v.unop(st, x)
	case *ssa.BinOp:
		st.regs[x] = v.binop(st, x)
	case *ssa.Store:
		p := v.operand(st, x.Addr)
		val := v.operand(st, x.Val)
		if p.Addr == nil {
			v.checkNonNil(st, x, p)
		}
		if p.Addr != nil && p.Addr.Kind == "field" && v.env.ownedMaps[p.Addr.Map] {
			if !v.ownedStoreOK(x) {
				v.emit(st, "own", v.siteLabel(x), "false", nil, "store to an owned slice field of a value that is not derived from the same field (append/reslice), make or nil", x)
			}
		}
		v.storeAddr(st, p, val, x)
	case *ssa.Call:
		st.regs[x] = v.doCall(st, x, x.Common())
	case *ssa.Defer:
		st.defers = append(st.defers, x)
	case *ssa.RunDefers:
		for i := len(st.defers) - 1; i >= 0; i-- {
			d := st.defers[i]
			v.doCall(st, d, d.Common())
		}
		st.defers = nil
	case *ssa.Go:
		v.notes = append(v.notes, "goroutine creation at "+v.posOf(x)+": the spawned function is a separate entry point; no interleaving is explored")
		// a spawned closure under contract must be admissible where it is spawned: its preconditions are
		// proved on a copy of the state as for a synchronous call; the effects of that call are discarded
		if mc, ok := x.Common().Value.(*ssa.MakeClosure); ok && !x.Common().IsInvoke() {
			if fn, ok := mc.Fn.(*ssa.Function); ok {
				if ct := v.prog.contract[funcKey(fn)]; ct != nil {
					cp := st.clone()
					v.doCall(cp, x, x.Common())
				}
			}
		}
		// the closure may run at any time: havoc what it may modify
		maps := map[string]string{}
		if v.callMods(x.Common(), maps) {
			v.havocAll(st)
		} else {
			for n, s := range maps {
				v.env.heapHavoc(st, n, s)
			}
		}
	case *ssa.Extract:
		t := v.operand(st, x.Tuple)
		if x.Index >= len(t.Tuple) {
			v.unsupportedf("extract from non-tuple")
		}
		st.regs[x] = t.Tuple[x.Index]
		if b, ok := x.Type().Underlying().(*types.Basic); ok && b.Kind() == types.Int {
			st.addCand(t.Tuple[x.Index].T)
		}
	case *ssa.MakeInterface:
		val := v.operand(st, x.X)
		if val.Addr != nil {
			// pointer to a non-struct boxed into an interface (binary.Read(&x)): keep the address
			st.regs[x] = Value{T: val.T, Sort: "Int", GoT: x.Type(), Addr: val.Addr}
			return
		}
		val.GoT = x.X.Type()
		r := v.env.makeIface(val)
		r.GoT = x.Type()
		st.regs[x] = r
	case *ssa.ChangeInterface:
		val := v.operand(st, x.X)
		val.GoT = x.Type()
		st.regs[x] = val
	case *ssa.ChangeType:
		val := v.operand(st, x.X)
		val.GoT = x.Type()
		st.regs[x] = val
	case *ssa.Convert:
		st.regs[x] = v.convert(st, x)
	case *ssa.TypeAssert:
		st.regs[x] = v.typeAssert(st, x)
	case *ssa.Slice:
		st.regs[x] = v.sliceOp(st, x)
	case *ssa.MakeSlice:
		st.regs[x] = v.makeSlice(st, x)
	case *ssa.MakeMap:
		st.regs[x] = v.env.mapNew(st, x.Type())
	case *ssa.MakeChan:
		r := v.env.allocRef(st, "chan")
		st.regs[x] = Value{T: r, Sort: "Int", GoT: x.Type()}
	case *ssa.MakeClosure:
		fn := x.Fn.(*ssa.Function)
		r := v.env.allocRef(st, "closure")
		ci := &closureInfo{fn: fn}
		for _, b := range x.Bindings {
			ci.bindings = append(ci.bindings, v.operand(st, b))
		}
		v.closures[r] = ci
		st.regs[x] = Value{T: r, Sort: "Int", GoT: x.Type()}
	case *ssa.Lookup:
		st.regs[x] = v.lookup(st, x)
	case *ssa.MapUpdate:
		m := v.operand(st, x.Map)
		v.checkSite(st, x, "nilmap", "(not (= "+m.T+" 0))", "assignment to entry in nil map")
		v.env.mapSet(st, m, v.operand(st, x.Key), v.operand(st, x.Value))
	case *ssa.Send:
		v.notes = append(v.notes, "channel send at "+v.posOf(x)+" modelled as no-op on the modelled state")
	case *ssa.Range:
		m := v.operand(st, x.X)
		if _, ok := x.X.Type().Underlying().(*types.Map); !ok {
			v.unsupportedf("range over string at %s", v.posOf(x))
		}
		st.regs[x] = m // the iterator stands for the map it ranges over
		// ghost set of the keys this iteration has produced so far (spec: rangevisited(k)); empty at the start
		{
			mt := x.X.Type().Underlying().(*types.Map)
			_, mp, _, ks := v.env.mapNames(mt)
			if v.rangeName == nil {
				v.rangeName = map[ssa.Value]string{}
			}
			if _, seen := v.rangeName[x]; !seen {
				v.rangeName[x] = fmt.Sprintf("RV!%d", len(v.rangeName))
			}
			// the spec function rangevisited refers to the map range of the function; with several map ranges it is ambiguous
			if v.env.rangeMap == "" || v.env.rangeMap == v.rangeName[x] {
				v.env.rangeMap, v.env.rangeKeySort = v.rangeName[x], ks
			} else {
				v.env.rangeMap = "?"
			}
			v.env.heapSet(st, v.rangeName[x], arr(ks, "Bool"), "((as const "+arr(ks, "Bool")+") false)")
			pres := v.env.heapGet(st, mp, arr("Int", arr(ks, "Bool")))
			if v.rangeEntryHas == nil {
				v.rangeEntryHas = map[ssa.Value]string{}
			}
			v.rangeEntryHas[x] = sel2(pres, m.T)
		}
	case *ssa.Next:
		if x.IsString {
			v.unsupportedf("range over string at %s", v.posOf(x))
		}
		// Map iteration is modelled as an arbitrary sequence of entries of the map as it is at each
		// step (any order, no promise that every entry is visited, none that the sequence ends):
		// whatever holds for every such sequence holds for Go's iteration order.
		m := v.operand(st, x.Iter)
		mt := m.GoT.Underlying().(*types.Map)
		ok := v.env.ctx.freshConst("next.ok", "Bool")
		k := v.freshValue(st, "next.key", mt.Key())
		v.assumeTypeFacts(st, k)
		st.assume(implies(ok, and(not(eq(m.T, "0")), v.env.mapHas(st, m, k))))
		// Go's range over a map produces every entry at most once, and every entry that is in the map from the start to
		// the end of the iteration exactly once (entries removed before they are reached are not produced, entries added
		// during the iteration may or may not be).
		{
			_, mp, _, ks := v.env.mapNames(mt)
			rvs := arr(ks, "Bool")
			rvName := v.rangeName[x.Iter]
			if rvName == "" {
				v.unsupportedf("next on an unknown map range at %s", v.posOf(x))
			}
			rv := v.env.heapGet(st, rvName, rvs)
			kk := k
			if ks == "Val" && kk.Sort != "Val" {
				kk = v.env.makeIface(kk)
			}
			st.assume(implies(ok, not(sel2(rv, kk.T))))
			if eh, has := v.rangeEntryHas[x.Iter]; has {
				pres := v.env.heapGet(st, mp, arr("Int", arr(ks, "Bool")))
				st.assume(implies(not(ok), "(forall ((rk!k "+ks+")) (! (=> (and (select "+eh+" rk!k) (select "+sel2(pres, m.T)+" rk!k)) (select "+rv+" rk!k)) :pattern ((select "+rv+" rk!k))))"))
			}
			v.env.heapSet(st, rvName, rvs, ite(ok, "(store "+rv+" "+kk.T+" true)", rv))
		}
		val := v.env.mapGet(st, m, k)
		v.assumeTypeFacts(st, val)
		st.regs[x] = Value{Tuple: []Value{{T: ok, Sort: "Bool", GoT: types.Typ[types.Bool]}, k, val}, GoT: x.Type()}
	case *ssa.Select:
		// A select is an arbitrary choice among its cases (or none, when it has a default); received values are
		// arbitrary values of the element type. Channel synchronisation itself is not modelled.
		v.notes = append(v.notes, "select at "+v.posOf(x)+": modelled as an arbitrary choice among its cases with arbitrary received values; channel synchronisation is not modelled")
		idx := v.freshValue(st, "select.idx", types.Typ[types.Int])
		lo := 0
		if !x.Blocking {
			lo = -1
		}
		st.assume(and(fmt.Sprintf("(>= %s %d)", idx.T, lo), fmt.Sprintf("(< %s %d)", idx.T, len(x.States))))
		okc := v.env.ctx.freshConst("select.ok", "Bool")
		tup := []Value{idx, {T: okc, Sort: "Bool", GoT: types.Typ[types.Bool]}}
		for _, sc := range x.States {
			if sc.Dir == types.RecvOnly {
				ct, _ := sc.Chan.Type().Underlying().(*types.Chan)
				if ct == nil {
					v.unsupportedf("select on a non-channel at %s", v.posOf(x))
				}
				rv := v.freshValue(st, "select.recv", ct.Elem())
				v.assumeTypeFacts(st, rv)
				tup = append(tup, rv)
			}
		}
		st.regs[x] = Value{Tuple: tup, GoT: x.Type()}
	default:
		v.unsupportedf("instruction %T at %s", in, v.posOf(in))
	}
}

// ownedStoreOK: the stored slice is nil, a fresh make, or an append/reslice of the same field of the
// same object (syntactic check on the SSA definition chain).
func (v *Verifier) ownedStoreOK(x *ssa.Store) bool {
	fa, ok := x.Addr.(*ssa.FieldAddr)
	if !ok {
		return false
	}
	var derives func(val ssa.Value, depth int) bool
	derives = func(val ssa.Value, depth int) bool {
		if depth > 6 {
			return false
		}
		switch d := val.(type) {
		case *ssa.Const:
			return d.Value == nil
		case *ssa.MakeSlice:
			return true
		case *ssa.Slice:
			return derives(d.X, depth+1)
		case *ssa.UnOp:
			if fa2, ok := d.X.(*ssa.FieldAddr); ok && d.Op == token.MUL {
				return fa2.Field == fa.Field && fa2.X == fa.X
			}
		case *ssa.Call:
			if b, ok := d.Call.Value.(*ssa.Builtin); ok && b.Name() == "append" {
				return derives(d.Call.Args[0], depth+1)
			}
		}
		return false
	}
	return derives(x.Val, 0)
}

func (v *Verifier) doAlloc(st *State, x *ssa.Alloc) Value {
	elemT := x.Type().(*types.Pointer).Elem()
	switch u := elemT.Underlying().(type) {
	case *types.Struct:
		r := v.env.allocStruct(st, elemT, x.Comment)
		if isBufferType(elemT) {
			v.zeroBuffer(st, r)
		}
		return Value{T: r, Sort: "Int", GoT: x.Type()}
	case *types.Array:
		// backing array for a slice
		r := v.env.allocRef(st, "array")
		es := v.env.sr.sortOf(u.Elem())
		name := elemMapNameT(u.Elem())
		v.env.noteMapType(name, u.Elem(), "elem")
		ms := arr("Int", arr("Int", es))
		m := v.env.heapGet(st, name, ms)
		v.env.heapSet(st, name, ms, sto(m, r, "((as const "+arr("Int", es)+") "+v.env.zero(u.Elem())+")"))
		return Value{T: r, Sort: "Int", GoT: x.Type(), Addr: &Addr{Kind: "array", Obj: r, ElemT: u.Elem(), Idx: intLit(u.Len())}}
	}
	// cell
	es := v.env.sr.sortOf(elemT)
	r := v.env.allocRef(st, "cell."+x.Comment)
	name := cellMapName(es)
	m := v.env.heapGet(st, name, arr("Int", es))
	v.env.heapSet(st, name, arr("Int", es), sto(m, r, v.env.zero(elemT)))
	return Value{T: r, Sort: "Int", GoT: x.Type(), Addr: &Addr{Kind: "cell", Map: name, Obj: r, ElemT: elemT}}
}

func (v *Verifier) indexAddr(st *State, x *ssa.IndexAddr) Value {
	base := v.operand(st, x.X)
	idx := v.operand(st, x.Index)
	st.addCand(idx.T)
	switch u := x.X.Type().Underlying().(type) {
	case *types.Slice:
		v.checkSite(st, x, "index", and("(<= 0 "+idx.T+")", "(< "+idx.T+" "+sliceLen(base.T)+")"), "slice index out of range")
		return Value{T: "elemaddr", Sort: "Int", GoT: x.Type(), Addr: &Addr{Kind: "elem", Map: elemMapNameT(u.Elem()), Obj: sliceBase(base.T), Idx: add(sliceOff(base.T), idx.T), ElemT: u.Elem()}}
	case *types.Pointer:
		at := u.Elem().Underlying().(*types.Array)
		if base.Addr == nil || base.Addr.Kind != "array" {
			v.unsupportedf("index of array pointer that is not a local backing array")
		}
		v.checkSite(st, x, "index", and("(<= 0 "+idx.T+")", "(< "+idx.T+" "+intLit(at.Len())+")"), "array index out of range")
		return Value{T: "elemaddr", Sort: "Int", GoT: x.Type(), Addr: &Addr{Kind: "elem", Map: elemMapNameT(at.Elem()), Obj: base.Addr.Obj, Idx: idx.T, ElemT: at.Elem()}}
	}
	v.unsupportedf("IndexAddr on %s", typeName(x.X.Type()))
	return Value{}
}

func (v *Verifier) unop(st *State, x *ssa.UnOp) Value {
	a := v.operand(st, x.X)
	switch x.Op {
	case token.MUL: // load
		if a.Addr == nil {
			v.checkNonNil(st, x, a)
		}
		r := v.loadAddr(st, a, x)
		r.GoT = x.Type()
		return r
	case token.NOT:
		return Value{T: not(a.T), Sort: "Bool", GoT: x.Type()}
	case token.SUB:
		if a.Sort == "Real" {
			return Value{T: "(- " + a.T + ")", Sort: "Real", GoT: x.Type()}
		}
		return v.wrapFresh(st, "(- "+a.T+")", x.Type(), x.Name())
	case token.XOR:
		r := v.freshValue(st, "xor", x.Type())
		st.assume(v.env.typeFacts(st, r))
		return r
	case token.ARROW:
		v.unsupportedf("channel receive at %s", v.posOf(x))
	}
	v.unsupportedf("unary op %s", x.Op)
	return Value{}
}

func (v *Verifier) binop(st *State, x *ssa.BinOp) Value {
	a := v.operand(st, x.X)
	b := v.operand(st, x.Y)
	boolV := func(t string) Value { return Value{T: t, Sort: "Bool", GoT: x.Type()} }
	t := x.X.Type()
	switch x.Op {
	case token.EQL, token.NEQ:
		var r string
		switch {
		case a.Sort == "Slice" || b.Sort == "Slice":
			// only comparison with nil is legal
			if a.Sort == "Slice" {
				r = eq(sliceBase(a.T), "0")
			} else {
				r = eq(sliceBase(b.T), "0")
			}
		case a.Sort == "Val" && b.Sort != "Val":
			r = eq(a.T, v.env.makeIface(b).T)
		case b.Sort == "Val" && a.Sort != "Val":
			r = eq(v.env.makeIface(a).T, b.T)
		case a.Addr != nil || b.Addr != nil:
			v.unsupportedf("comparison of non-struct pointers")
		default:
			if a.Sort != b.Sort {
				v.unsupportedf("comparison of sorts %s and %s", a.Sort, b.Sort)
			}
			r = eq(a.T, b.T)
		}
		if x.Op == token.NEQ {
			r = not(r)
		}
		return boolV(r)
	case token.LSS, token.LEQ, token.GTR, token.GEQ:
		op := map[token.Token]string{token.LSS: "<", token.LEQ: "<=", token.GTR: ">", token.GEQ: ">="}[x.Op]
		if a.Sort == "Str" {
			v.strOrderAxioms()
			return boolV("(" + op + " (scmp " + a.T + " " + b.T + ") 0)")
		}
		return boolV("(" + op + " " + a.T + " " + b.T + ")")
	case token.LAND:
		return boolV(and(a.T, b.T))
	case token.LOR:
		return boolV(or(a.T, b.T))
	}
	if a.Sort == "Str" && x.Op == token.ADD {
		v.env.ctx.axiom("(forall ((a Str) (b Str)) (! (= (slen (sconcat a b)) (+ (slen a) (slen b))) :pattern ((sconcat a b))))")
		return Value{T: app("sconcat", a.T, b.T), Sort: "Str", GoT: x.Type()}
	}
	if a.Sort == "Real" {
		op := map[token.Token]string{token.ADD: "+", token.SUB: "-", token.MUL: "*", token.QUO: "/"}[x.Op]
		if op == "" {
			v.unsupportedf("float op %s", x.Op)
		}
		return Value{T: "(" + op + " " + a.T + " " + b.T + ")", Sort: "Real", GoT: x.Type()}
	}
	if a.Sort != "Int" {
		v.unsupportedf("binary op %s on sort %s", x.Op, a.Sort)
	}
	intV := func(t string) Value { return v.wrapFresh(st, t, x.Type(), x.Name()) }
	switch x.Op {
	case token.ADD:
		return intV("(+ " + a.T + " " + b.T + ")")
	case token.SUB:
		return intV("(- " + a.T + " " + b.T + ")")
	case token.MUL:
		return intV("(* " + a.T + " " + b.T + ")")
	case token.QUO:
		if c, ok := x.Y.(*ssa.Const); ok && c.Value != nil {
			if n, ok := constant.Int64Val(c.Value); ok && n > 0 {
				// truncated division by a positive constant, axiomatised linearly
				q := v.env.ctx.freshConst("quo", "Int")
				cq := "(* " + b.T + " " + q + ")"
				st.assume(ite("(>= "+a.T+" 0)",
					and("(<= "+cq+" "+a.T+")", "(< "+a.T+" (+ "+cq+" "+b.T+"))"),
					and("(>= "+cq+" "+a.T+")", "(> "+a.T+" (- "+cq+" "+b.T+"))")))
				return intV(q)
			}
		}
		v.checkSite(st, x, "div", "(not (= "+b.T+" 0))", "integer divide by zero")
		return intV(app("tdiv", a.T, b.T))
	case token.REM:
		v.checkSite(st, x, "div", "(not (= "+b.T+" 0))", "integer divide by zero")
		return intV(app("tmod", a.T, b.T))
	case token.SHL, token.SHR:
		if c, ok := x.Y.(*ssa.Const); ok && c.Value != nil {
			if n, ok := constant.Int64Val(c.Value); ok && n >= 0 && n < 63 {
				p := intLit(int64(1) << uint(n))
				if x.Op == token.SHL {
					return intV("(* " + a.T + " " + p + ")")
				}
				return intV("(div " + a.T + " " + p + ")")
			}
		}
		fallthrough
	case token.AND, token.OR, token.XOR, token.AND_NOT:
		_ = t
		r := v.freshValue(st, "bitop", x.Type())
		st.assume(v.env.typeFacts(st, r))
		if x.Op == token.AND {
			// x & y <= both (for non-negative operands)
			st.assume(implies(and("(>= "+a.T+" 0)", "(>= "+b.T+" 0)"), and("(<= "+r.T+" "+a.T+")", "(<= "+r.T+" "+b.T+")", "(>= "+r.T+" 0)")))
		}
		if x.Op == token.OR {
			// x | y: negative iff an operand is negative (signed); for non-negative operands between max and sum
			st.assume(implies(and("(>= "+a.T+" 0)", "(>= "+b.T+" 0)"), and("(>= "+r.T+" "+a.T+")", "(>= "+r.T+" "+b.T+")", "(<= "+r.T+" (+ "+a.T+" "+b.T+"))")))
			if lo, _, ok := intRange(x.Type()); ok && lo.Sign() < 0 {
				st.assume(implies(or("(< "+a.T+" 0)", "(< "+b.T+" 0)"), "(< "+r.T+" 0)"))
			}
		}
		if x.Op == token.SHL || x.Op == token.SHR {
			// a shift count of at least the operand width: x << n == 0; x >> n == 0 for x >= 0 (Go spec, "Arithmetic operators")
			if lo, hi, ok := intRange(x.X.Type()); ok {
				w := hi.BitLen()
				if lo.Sign() < 0 {
					w++
				}
				big := "(>= " + b.T + " " + intLit(int64(w)) + ")"
				if x.Op == token.SHL {
					st.assume(implies(big, eq(r.T, "0")))
				} else {
					st.assume(implies(and(big, "(>= "+a.T+" 0)"), eq(r.T, "0")))
				}
			}
		}
		return r
	}
	v.unsupportedf("binary op %s", x.Op)
	return Value{}
}

// wrapFresh returns a fresh constant equal to the machine-integer wrap of the mathematical term t.
func (v *Verifier) wrapFresh(st *State, t string, typ types.Type, hint string) Value {
	lo, hi, ok := intRange(typ)
	if !ok {
		return Value{T: t, Sort: "Int", GoT: typ}
	}
	if isIntLit(t) {
		return Value{T: wrapInt(t, typ), Sort: "Int", GoT: typ}
	}
	r := v.env.ctx.freshConst(hint, "Int")
	in := "(and (<= " + bigLit(lo.String()) + " " + t + ") (<= " + t + " " + bigLit(hi.String()) + "))"
	st.assume(ite(in, eq(r, t), eq(r, wrapInt(t, typ))))
	st.assume(rangeFact(r, typ))
	return Value{T: r, Sort: "Int", GoT: typ}
}

func intRangeOK(t types.Type) (struct{}, bool) {
	_, _, ok := intRange(t)
	return struct{}{}, ok
}

func isIntLit(t string) bool {
	if t == "" {
		return false
	}
	for _, c := range t {
		if c < '0' || c > '9' {
			return false
		}
	}
	return true
}

func (v *Verifier) strOrderAxioms() {
	c := v.env.ctx
	c.axiom("(forall ((a Str) (b Str)) (! (= (= (scmp a b) 0) (= a b)) :pattern ((scmp a b))))")
	c.axiom("(forall ((a Str) (b Str)) (! (= (< (scmp a b) 0) (> (scmp b a) 0)) :pattern ((scmp a b))))")
	c.axiom("(forall ((a Str) (b Str) (c Str)) (! (=> (and (< (scmp a b) 0) (< (scmp b c) 0)) (< (scmp a c) 0)) :pattern ((scmp a b) (scmp b c))))")
	c.axiom("(forall ((a Str) (b Str)) (! (and (<= (- 1) (scmp a b)) (<= (scmp a b) 1)) :pattern ((scmp a b))))")
}

func (v *Verifier) convert(st *State, x *ssa.Convert) Value {
	a := v.operand(st, x.X)
	from := x.X.Type().Underlying()
	to := x.Type().Underlying()
	fb, fok := from.(*types.Basic)
	tb, tok := to.(*types.Basic)
	switch {
	case fok && tok && fb.Info()&types.IsInteger != 0 && tb.Info()&types.IsInteger != 0:
		if flo, fhi, ok1 := intRange(x.X.Type()); ok1 {
			if tlo, thi, ok2 := intRange(x.Type()); ok2 && tlo.Cmp(flo) <= 0 && thi.Cmp(fhi) >= 0 {
				return Value{T: a.T, Sort: "Int", GoT: x.Type()} // widening: value preserved
			}
		}
		return v.wrapFresh(st, a.T, x.Type(), x.Name())
	case fok && tok && fb.Info()&types.IsInteger != 0 && tb.Info()&types.IsFloat != 0:
		return Value{T: "(to_real " + a.T + ")", Sort: "Real", GoT: x.Type()}
	case fok && tok && fb.Info()&types.IsFloat != 0 && tb.Info()&types.IsInteger != 0:
		// truncation toward zero; exact only inside the int64 range (otherwise unspecified)
		tr := ite("(>= "+a.T+" 0.0)", "(to_int "+a.T+")", "(- (to_int (- "+a.T+")))")
		return Value{T: wrapInt(tr, x.Type()), Sort: "Int", GoT: x.Type()}
	case fok && tok && fb.Info()&types.IsFloat != 0 && tb.Info()&types.IsFloat != 0:
		return Value{T: a.T, Sort: "Real", GoT: x.Type()}
	case fok && tok && fb.Info()&types.IsString != 0 && tb.Info()&types.IsString != 0:
		return Value{T: a.T, Sort: "Str", GoT: x.Type()}
	}
	// string <-> []byte / []rune
	if _, isSl := to.(*types.Slice); isSl && fok && fb.Info()&types.IsString != 0 {
		return v.strToBytes(st, a, x.Type())
	}
	if _, isSl := from.(*types.Slice); isSl && tok && tb.Info()&types.IsString != 0 {
		return v.bytesToStr(st, a, x.Type())
	}
	if fok && tok && fb.Info()&types.IsInteger != 0 && tb.Info()&types.IsString != 0 {
		r := v.freshValue(st, "runestr", x.Type())
		st.assume("(>= (slen " + r.T + ") 1)")
		return r
	}
	if v.env.sr.sortOf(x.Type()) == a.Sort {
		a.GoT = x.Type()
		return a
	}
	v.unsupportedf("conversion %s -> %s", typeName(x.X.Type()), typeName(x.Type()))
	return Value{}
}

// strToBytes models []byte(s) / []rune(s): a fresh backing array whose contents are a function of s.
func (v *Verifier) strToBytes(st *State, a Value, t types.Type) Value {
	elemT := t.Underlying().(*types.Slice).Elem()
	es := v.env.sr.sortOf(elemT)
	isRune := elemT.Underlying().(*types.Basic).Kind() == types.Int32
	fn := "str.bytes"
	if isRune {
		fn = "str.runes"
	}
	v.env.ctx.declFun(fn, []string{"Str"}, arr("Int", "Int"))
	v.env.ctx.declFun(fn+".len", []string{"Str"}, "Int")
	r := v.env.allocRef(st, "strbytes")
	name := elemMapNameT(elemT)
	v.env.noteMapType(name, elemT, "elem")
	ms := arr("Int", arr("Int", es))
	m := v.env.heapGet(st, name, ms)
	v.env.heapSet(st, name, ms, sto(m, r, app(fn, a.T)))
	ln := app("slen", a.T)
	if isRune {
		ln = app(fn+".len", a.T)
		st.assume(and("(<= 0 "+ln+")", "(<= "+ln+" (slen "+a.T+"))"))
	} else {
		v.env.ctx.axiom("(forall ((s Str) (i Int)) (! (= (select (str.bytes s) i) (sat s i)) :pattern ((select (str.bytes s) i))))")
	}
	capc := v.env.ctx.freshConst("cap", "Int")
	st.assume("(>= " + capc + " " + ln + ")")
	return Value{T: mkSlice(r, "0", ln, capc), Sort: "Slice", GoT: t}
}

func (v *Verifier) bytesToStr(st *State, a Value, t types.Type) Value {
	elemT := a.GoT.Underlying().(*types.Slice).Elem()
	es := v.env.sr.sortOf(elemT)
	isRune := elemT.Underlying().(*types.Basic).Kind() == types.Int32
	fn := "bytes.str"
	if isRune {
		fn = "runes.str"
	}
	// string(b) is a function of the content array, the offset and the length
	v.env.ctx.declFun(fn, []string{arr("Int", "Int"), "Int", "Int"}, "Str")
	name := elemMapNameT(elemT)
	v.env.noteMapType(name, elemT, "elem")
	m := v.env.heapGet(st, name, arr("Int", arr("Int", es)))
	r := app(fn, sel2(m, sliceBase(a.T)), sliceOff(a.T), sliceLen(a.T))
	if !isRune {
		v.env.ctx.axiom("(forall ((c (Array Int Int)) (o Int) (n Int)) (! (=> (>= n 0) (= (slen (bytes.str c o n)) n)) :pattern ((bytes.str c o n))))")
		v.env.ctx.axiom("(forall ((c (Array Int Int)) (o Int) (n Int) (i Int)) (! (=> (and (<= 0 i) (< i n)) (= (sat (bytes.str c o n) i) (select c (+ o i)))) :pattern ((sat (bytes.str c o n) i))))")
		// round trip: string([]byte(s)) == s
		v.env.ctx.declFun("str.bytes", []string{"Str"}, arr("Int", "Int"))
		v.env.ctx.axiom("(forall ((s Str)) (! (= (bytes.str (str.bytes s) 0 (slen s)) s) :pattern ((str.bytes s))))")
	} else {
		v.env.ctx.axiom("(forall ((c (Array Int Int)) (o Int) (n Int)) (! (>= (slen (runes.str c o n)) n) :pattern ((runes.str c o n))))")
	}
	return Value{T: r, Sort: "Str", GoT: t}
}

func (v *Verifier) typeAssert(st *State, x *ssa.TypeAssert) Value {
	a := v.operand(st, x.X)
	if a.Sort != "Val" {
		v.unsupportedf("type assertion on non-interface sort %s", a.Sort)
	}
	ok := v.env.valIsType(a, x.AssertedType)
	if x.CommaOk {
		pay := v.env.valPayload(a, x.AssertedType)
		zero := v.env.zero(x.AssertedType)
		val := Value{T: ite(ok, pay.T, zero), Sort: pay.Sort, GoT: x.AssertedType}
		return Value{Tuple: []Value{val, {T: ok, Sort: "Bool", GoT: types.Typ[types.Bool]}}, GoT: x.Type()}
	}
	v.checkSite(st, x, "assert", ok, "interface conversion: "+typeName(x.X.Type())+" is not "+typeName(x.AssertedType))
	pay := v.env.valPayload(a, x.AssertedType)
	pay.GoT = x.AssertedType
	if f := v.env.typeFacts(st, pay); f != "true" {
		st.assume(f)
	}
	return pay
}

func (v *Verifier) sliceOp(st *State, x *ssa.Slice) Value {
	a := v.operand(st, x.X)
	lo := "0"
	if x.Low != nil {
		lo = v.operand(st, x.Low).T
	}
	switch u := x.X.Type().Underlying().(type) {
	case *types.Slice:
		hi := sliceLen(a.T)
		if x.High != nil {
			hi = v.operand(st, x.High).T
		}
		mx := sliceCap(a.T)
		if x.Max != nil {
			mx = v.operand(st, x.Max).T
		}
		v.checkSite(st, x, "slice", and("(<= 0 "+lo+")", "(<= "+lo+" "+hi+")", "(<= "+hi+" "+mx+")", "(<= "+mx+" "+sliceCap(a.T)+")"), "slice bounds out of range")
		return Value{T: mkSlice(sliceBase(a.T), add(sliceOff(a.T), lo), sub(hi, lo), sub(mx, lo)), Sort: "Slice", GoT: x.Type()}
	case *types.Basic: // string
		hi := app("slen", a.T)
		if x.High != nil {
			hi = v.operand(st, x.High).T
		}
		v.checkSite(st, x, "slice", and("(<= 0 "+lo+")", "(<= "+lo+" "+hi+")", "(<= "+hi+" (slen "+a.T+"))"), "string slice bounds out of range")
		r := v.env.strSub(a.T, lo, hi)
		r.GoT = x.Type()
		return r
	case *types.Pointer: // *[N]T
		at := u.Elem().Underlying().(*types.Array)
		if a.Addr == nil || a.Addr.Kind != "array" {
			v.unsupportedf("slice of array pointer that is not a local backing array")
		}
		n := intLit(at.Len())
		hi := n
		if x.High != nil {
			hi = v.operand(st, x.High).T
		}
		v.checkSite(st, x, "slice", and("(<= 0 "+lo+")", "(<= "+lo+" "+hi+")", "(<= "+hi+" "+n+")"), "slice bounds out of range")
		return Value{T: mkSlice(a.Addr.Obj, lo, sub(hi, lo), sub(n, lo)), Sort: "Slice", GoT: x.Type()}
	}
	v.unsupportedf("slice of %s", typeName(x.X.Type()))
	return Value{}
}

func (v *Verifier) makeSlice(st *State, x *ssa.MakeSlice) Value {
	ln := v.operand(st, x.Len)
	cp := v.operand(st, x.Cap)
	elemT := x.Type().Underlying().(*types.Slice).Elem()
	v.checkSite(st, x, "makeslice", and("(<= 0 "+ln.T+")", "(<= "+ln.T+" "+cp.T+")"), "makeslice: len out of range")
	r := v.env.allocRef(st, "slice")
	es := v.env.sr.sortOf(elemT)
	name := elemMapNameT(elemT)
	v.env.noteMapType(name, elemT, "elem")
	ms := arr("Int", arr("Int", es))
	m := v.env.heapGet(st, name, ms)
	v.env.heapSet(st, name, ms, sto(m, r, "((as const "+arr("Int", es)+") "+v.env.zero(elemT)+")"))
	return Value{T: mkSlice(r, "0", ln.T, cp.T), Sort: "Slice", GoT: x.Type()}
}

func (v *Verifier) lookup(st *State, x *ssa.Lookup) Value {
	a := v.operand(st, x.X)
	k := v.operand(st, x.Index)
	if _, ok := x.X.Type().Underlying().(*types.Map); ok {
		val := v.env.mapGet(st, a, k)
		if f := v.env.typeFacts(st, val); f != "true" {
			st.assume(f)
		}
		if x.CommaOk {
			return Value{Tuple: []Value{val, {T: and(not(eq(a.T, "0")), v.env.mapHas(st, a, k)), Sort: "Bool", GoT: types.Typ[types.Bool]}}, GoT: x.Type()}
		}
		return val
	}
	// string index
	v.checkSite(st, x, "index", and("(<= 0 "+k.T+")", "(< "+k.T+" (slen "+a.T+"))"), "string index out of range")
	r := Value{T: app("sat", a.T, k.T), Sort: "Int", GoT: x.Type()}
	st.assume(rangeFact(r.T, x.Type()))
	return r
}

// ---------- return ----------

func (v *Verifier) resultVars(st *State, results []Value, vars map[string]Value) {
	sig := v.fn.Signature
	for i, r := range results {
		vars[fmt.Sprintf("result%d", i)] = r
		if n := sig.Results().At(i).Name(); n != "" && n != "_" {
			vars[n] = r
		}
		if i == len(results)-1 && isErrorType(sig.Results().At(i).Type()) {
			vars["err"] = r
		}
	}
	if len(results) == 1 {
		vars["result"] = results[0]
	} else if len(results) > 1 {
		vars["result"] = results[0]
	}
}

func (v *Verifier) doReturn(st *State, x *ssa.Return) {
	var results []Value
	for i, r := range x.Results {
		rv := v.operand(st, r)
		want := v.env.sr.sortOf(v.fn.Signature.Results().At(i).Type())
		if want == "Val" && rv.Sort != "Val" {
			rv = v.env.makeIface(rv)
		}
		rv.GoT = v.fn.Signature.Results().At(i).Type()
		results = append(results, rv)
	}
	if v.contract == nil {
		return
	}
	vars := v.baseVars(st)
	v.resultVars(st, results, vars)
	se := v.specEnv(st, vars)
	// locals at the return point (by source name; "name$" = current value of a reassigned parameter)
	locals := map[string]Value{}
	v.localVarsAll(st, x.Block(), locals)
	for _, en := range v.contract.Ensures {
		if en.Assumed {
			continue
		}
		se.witness = nil
		if len(en.Witness) > 0 {
			se.witness = map[string]Value{}
			for qv, local := range en.Witness {
				if lv, ok := locals[local]; ok {
					se.witness[qv] = lv
				}
			}
		}
		o := v.emit(st, "post", en.Label, se.evalBool(en.E), en.Props, en.Text, x)
		v.addInputs(o, st)
	}
	se.witness = nil
	if v.fn.Parent() != nil {
		// a closure's modifies clause is read in the state in which the higher-order callee was
		// entered; a slice named there must therefore still be the same array, or one allocated
		// since, whenever the closure runs again (induction over the callbacks)
		for k, m := range v.contract.Modifies {
			if m.Kind != "elems" {
				continue
			}
			call := func(fn string, a Expr) Expr { return &ECall{Fn: &EIdent{Name: fn}, Args: []Expr{a}} }
			cond := &EBinary{Op: "||",
				L: &EBinary{Op: "==", L: call("base", m.E), R: call("old", call("base", m.E))},
				R: call("fresh", m.E)}
			v.emit(st, "frame.stable", fmt.Sprintf("%d", k+1), se.evalBool(cond), v.contract.Props, "slice named in the closure's modifies clause is the same array or a fresh one after the call", x)
		}
	}
	seI := *se
	seI.old = nil
	seI.oldAbs = v.invOld
	for _, inv := range v.contract.Invariants {
		v.emit(st, "post", "inv."+inv.Label, seI.evalBool(inv.E), inv.Props, "closure invariant: "+inv.Text, x)
	}
	v.checkFrame(st, x)
}

func (v *Verifier) addInputs(o *Obligation, st *State) {
	for _, p := range v.fn.Params {
		val := v.params[p.Name()]
		if val.T != "" {
			o.Inputs = append(o.Inputs, modelInput{Name: p.Name(), Term: val.T})
		}
	}
}

// ---------- frame ----------

// modSets evaluates a contract's modifies clause in state pre with variables vars: for every heap
// map name, the list of object terms that may change ("*" = the whole map).
func (v *Verifier) modSets(c *Contract, se *SpecEnv) (sets map[string][]string, sorts map[string]string, everything bool) {
	sets = map[string][]string{}
	sorts = map[string]string{}
	for _, m := range c.Modifies {
		switch m.Kind {
		case "everything":
			everything = true
		case "field":
			obj := se.eval(m.E)
			if obj.GoT == nil {
				sfail("modifies: untyped object for field %s", m.Name)
			}
			_, elemT, ok := isStructPtr(obj.GoT)
			if !ok {
				sfail("modifies %s: not a struct pointer", m.Name)
			}
			var pkg *types.Package
			if n := recvNamed(obj.GoT); n != nil {
				pkg = n.Obj().Pkg()
			}
			o, path, _ := types.LookupFieldOrMethod(obj.GoT, true, pkg, m.Name)
			if _, ok := o.(*types.Var); !ok {
				// ghost per-object variable?
				if g, ok := v.prog.ghosts[m.Name]; ok && g.Key != nil {
					gs := *se
					gs.pkg = g.Pkg
					srt := v.env.sr.sortOf(gs.resolveType(g.T))
					sets["G!"+g.Name] = append(sets["G!"+g.Name], obj.T)
					sorts["G!"+g.Name] = arr("Int", srt)
					continue
				}
				sfail("modifies: %s has no field %s", typeName(obj.GoT), m.Name)
			}
			cur := elemT
			ref := obj.T
			for i, idx := range path {
				stt := cur.Underlying().(*types.Struct)
				f := stt.Field(idx)
				if i == len(path)-1 {
					if fs, isStruct := f.Type().Underlying().(*types.Struct); isStruct {
						er := v.env.embRef(cur, f.Name(), ref)
						for j := 0; j < fs.NumFields(); j++ {
							name := fieldMapName(f.Type(), fs.Field(j).Name())
							sets[name] = append(sets[name], er)
							sorts[name] = arr("Int", v.env.sr.sortOf(fs.Field(j).Type()))
						}
					} else {
						name := fieldMapName(cur, f.Name())
						sets[name] = append(sets[name], ref)
						sorts[name] = arr("Int", v.env.sr.sortOf(f.Type()))
					}
				} else {
					if _, isStruct := f.Type().Underlying().(*types.Struct); isStruct {
						ref = v.env.embRef(cur, f.Name(), ref)
						cur = f.Type()
					} else {
						// through a pointer field
						ref = v.env.loadField(se.s, cur, ref, idx).T
						cur = f.Type().Underlying().(*types.Pointer).Elem()
					}
				}
			}
		case "fields":
			obj := se.eval(m.E)
			_, elemT, ok := isStructPtr(obj.GoT)
			if !ok {
				sfail("modifies fields(): not a struct pointer")
			}
			v.allFieldSets(elemT, obj.T, sets, sorts)
		case "elems":
			sl := se.eval(m.E)
			elemT := sl.GoT.Underlying().(*types.Slice).Elem()
			es := v.env.sr.sortOf(elemT)
			name := elemMapNameT(elemT)
			v.env.noteMapType(name, elemT, "elem")
			sets[name] = append(sets[name], sliceBase(sl.T))
			sorts[name] = arr("Int", arr("Int", es))
		case "cell":
			p := se.vars["&"+exprName(m.E)]
			if p.T == "" {
				p = se.eval(m.E)
			}
			if p.Addr == nil {
				if p.T == "0" {
					continue // a nil pointer names no cell
				}
				sfail("modifies cell(): not a pointer to a cell")
			}
			sets[p.Addr.Map] = append(sets[p.Addr.Map], p.Addr.Obj)
			sorts[p.Addr.Map] = arr("Int", v.env.sr.sortOf(p.Addr.ElemT))
		case "map":
			mv := se.eval(m.E)
			mt := mv.GoT.Underlying().(*types.Map)
			a, b, vs, ks := v.env.mapNames(mt)
			sets[a] = append(sets[a], mv.T)
			sorts[a] = arr("Int", arr(ks, vs))
			sets[b] = append(sets[b], mv.T)
			sorts[b] = arr("Int", arr(ks, "Bool"))
			sets[v.env.mlName(mt)] = append(sets[v.env.mlName(mt)], mv.T)
			sorts[v.env.mlName(mt)] = arr("Int", "Int")
		case "all":
			// Type.field or pkg.Type.field
			parts := strings.Split(m.Name, ".")
			pk := se.pkg
			if len(parts) == 3 {
				pk = parts[0]
				parts = parts[1:]
			}
			t := se.resolveType(&TypeExpr{Kind: "name", Pkg: pk, Name: parts[0]})
			idx, f := fieldByName(t, parts[1])
			if idx < 0 {
				sfail("modifies all(%s): no such field", m.Name)
			}
			name := fieldMapName(t, f.Name())
			sets[name] = []string{"*"}
			sorts[name] = arr("Int", v.env.sr.sortOf(f.Type()))
		case "allmap":
			// contents of every map[any]*list.Element (the LRU index maps)
			for _, n := range []string{"MV!Val!Int", "MP!Val!Int"} {
				sets[n] = []string{"*"}
			}
			sorts["MV!Val!Int"] = arr("Int", arr("Val", "Int"))
			sorts["MP!Val!Int"] = arr("Int", arr("Val", "Bool"))
			sets["ML!Val!Int"] = []string{"*"}
			sorts["ML!Val!Int"] = arr("Int", "Int")
		case "allelems":
			te, err := parseTypeString(m.Name)
			if err != nil {
				sfail("modifies allelems(%s): %v", m.Name, err)
			}
			t := se.resolveType(te)
			es := v.env.sr.sortOf(t)
			name := elemMapNameT(t)
			v.env.noteMapType(name, t, "elem")
			sets[name] = []string{"*"}
			sorts[name] = arr("Int", arr("Int", es))
		case "ghost":
			g, ok := v.prog.ghosts[m.Name]
			if !ok {
				sfail("modifies: unknown ghost variable %s", m.Name)
			}
			gs := *se
			gs.pkg = g.Pkg
			srt := v.env.sr.sortOf(gs.resolveType(g.T))
			if g.Key2 != nil {
				srt = arr("Int", srt)
			}
			if g.Key == nil {
				sets["G!"+g.Name] = []string{"*"}
				sorts["G!"+g.Name] = srt
			} else if m.E != nil {
				sets["G!"+g.Name] = append(sets["G!"+g.Name], se.eval(m.E).T)
				sorts["G!"+g.Name] = arr("Int", srt)
			} else {
				sets["G!"+g.Name] = []string{"*"}
				sorts["G!"+g.Name] = arr("Int", srt)
			}
		}
	}
	return
}

// allFieldSets adds every (flattened) field of the struct object ref to the modifies sets.
func (v *Verifier) allFieldSets(structT types.Type, ref string, sets map[string][]string, sorts map[string]string) {
	st := structT.Underlying().(*types.Struct)
	for i := 0; i < st.NumFields(); i++ {
		f := st.Field(i)
		if _, isStruct := f.Type().Underlying().(*types.Struct); isStruct {
			v.allFieldSets(f.Type(), v.env.embRef(structT, f.Name(), ref), sets, sorts)
			continue
		}
		name := fieldMapName(structT, f.Name())
		sets[name] = append(sets[name], ref)
		sorts[name] = arr("Int", v.env.sr.sortOf(f.Type()))
	}
}

func exprName(e Expr) string {
	if id, ok := e.(*EIdent); ok {
		return id.Name
	}
	return ""
}

type frameF struct {
	name    string
	formula string
}

// frameFormulas: for every heap map that differs from its initial version on this path, the
// formula "outside the modifies clause and outside objects allocated since entry, the map equals
// its initial version". asGoal selects the (skolemisable) goal form.
func (v *Verifier) frameFormulas(st *State, asGoal bool) []frameF {
	if v.contract == nil {
		return nil
	}
	pre := v.specEnv(st, v.baseVars(st)).inState(v.entry)
	pre.old = v.entry
	sets, _, everything := v.modSets(v.contract, pre)
	if everything {
		return nil
	}
	var out []frameF
	for _, name := range sortedKeys(st.heap) {
		cur := st.heap[name]
		init, ok := v.env.init[name]
		if b, has := st.frameBase[name]; has {
			init, ok = b, true
		}
		if !ok || cur == init {
			continue
		}
		if strings.HasPrefix(name, "G!") {
			if g := v.prog.ghosts[strings.TrimPrefix(name, "G!")]; g != nil && g.History {
				continue // history ghosts are outside every frame
			}
		}
		if strings.HasPrefix(name, "RV!") {
			continue // the ghost set of keys produced by a map range is not program state
		}
		wild := false
		for _, a := range sets[name] {
			if a == "*" {
				wild = true
			}
		}
		if wild {
			continue
		}
		srt := st.hsort[name]
		if !strings.HasPrefix(srt, "(Array Int ") {
			out = append(out, frameF{name, eq(cur, init)})
			continue
		}
		r := "fr!r"
		var alts []string
		alts = append(alts, eq(sel2(cur, r), sel2(init, r)))
		alts = append(alts, "(> "+r+" "+v.entry.alloc+")")
		alts = append(alts, "(<= "+r+" 0)")
		for _, a := range sets[name] {
			alts = append(alts, eq(r, a))
		}
		out = append(out, frameF{name, "(forall ((fr!r Int)) (! " + or(alts...) + " :pattern ((select " + cur + " fr!r))))"})
	}
	return out
}

func (v *Verifier) checkFrame(st *State, in ssa.Instruction) {
	if st.unknownWrites && v.contract != nil {
		ev := false
		for _, m := range v.contract.Modifies {
			if m.Kind == "everything" {
				ev = true
			}
		}
		if !ev {
			v.emit(st, "frame", "unknown-callee", "false", nil, "a callee without contract may have written anything; the modifies clause cannot be proved", in)
		}
	}
	for _, f := range v.frameFormulas(st, true) {
		v.emit(st, "frame", mangle(f.name), f.formula, nil, "writes to "+f.name+" stay inside the modifies clause (or fresh objects)", in)
	}
}

func (v *Verifier) cellMapEscapes(name string) bool { return true }

// frameCheckpoint makes the current heap versions the reference for the frame obligations.
func (v *Verifier) frameCheckpoint(st *State) {
	st.frameBase = make(map[string]string, len(st.heap))
	for n, t := range st.heap {
		st.frameBase[n] = t
	}
}

// callbackKeep: names of the heap maps a callback parameter is required to preserve.
func (v *Verifier) callbackKeep(st *State, cb *CallbackSpec) map[string]bool {
	pre := v.specEnv(st, v.baseVars(st)).inState(v.entry)
	keep := map[string]bool{}
	tmp := &Contract{Modifies: cb.Preserves, Pkg: v.contract.Pkg}
	sets, _, _ := v.modSets(tmp, pre)
	for n := range sets {
		keep[n] = true
	}
	return keep
}

func (v *Verifier) havocAll(st *State) { v.havocAllExcept(st, nil) }

// havocAllExcept havocs every heap map except the named ones (callback "preserves").
func (v *Verifier) havocAllExcept(st *State, keep map[string]bool) {
	names := map[string]string{}
	for n, s := range st.hsort {
		if !keep[n] {
			names[n] = s
		}
	}
	if st.epoch == "" {
		st.epochKeep = keep
	} else {
		nk := map[string]bool{}
		for n := range keep {
			if st.epochKeep[n] {
				nk[n] = true
			}
		}
		st.epochKeep = nk
	}
	for _, n := range sortedNames2(names) {
		v.env.heapHavoc(st, n, names[n])
	}
	v.env.ctx.epochs++
	st.epoch = fmt.Sprintf("%d", v.env.ctx.epochs)
	st.unknownWrites = true
	na := v.env.ctx.freshConst("alloc", "Int")
	st.assume("(>= " + na + " " + st.alloc + ")")
	st.alloc = na
}

func sortedNames2(m map[string]string) []string {
	var out []string
	for k := range m {
		out = append(out, k)
	}
	sort.Strings(out)
	return out
}

// ---- names of locals recorded with the baseline ----
//
// Contracts name loop variables and other locals by their source names. A rename of a local is a harmless edit; so that it
// does not unbind a contract, the baseline records for every function which SSA value (register name and type) each source
// name stood for. When a name a contract may use has disappeared from the function, and the recorded SSA value of that type is
// still there, the old name is kept as an alias of that value (the obligations themselves are generated and proved as always).

type recName struct {
	SSA  string `json:"ssa"`
	Type string `json:"type"`
	Kind string `json:"kind"` // "val", "phi", "alloc"
}

var recordedNames map[string]map[string][]recName
var recordedNamesLoaded bool

func namesFile() string { return filepath.Join(verifDir, "baseline", "names.json") }

func loadRecordedNames() {
	if recordedNamesLoaded {
		return
	}
	recordedNamesLoaded = true
	recordedNames = map[string]map[string][]recName{}
	b, err := os.ReadFile(namesFile())
	if err == nil {
		json.Unmarshal(b, &recordedNames)
	}
}

// currentNames lists, per source name, the SSA values that carry it in this function.
func (v *Verifier) currentNames() map[string][]recName {
	out := map[string][]recName{}
	add := func(n string, r recName) {
		for _, x := range out[n] {
			if x == r {
				return
			}
		}
		out[n] = append(out[n], r)
	}
	for val, names := range v.dbg {
		for _, n := range names {
			add(n, recName{SSA: val.Name(), Type: val.Type().String(), Kind: "val"})
		}
	}
	for _, b := range v.fn.Blocks {
		for _, in := range b.Instrs {
			if ph, ok := in.(*ssa.Phi); ok && ph.Comment != "" {
				add(ph.Comment, recName{SSA: ph.Name(), Type: ph.Type().String(), Kind: "phi"})
			}
		}
	}
	for n, a := range v.addrNames {
		add(n, recName{SSA: a.Name(), Type: a.Type().String(), Kind: "alloc"})
	}
	for n := range out {
		sort.Slice(out[n], func(i, j int) bool { return out[n][i].SSA < out[n][j].SSA })
	}
	return out
}

func (v *Verifier) applyRecordedNames() {
	loadRecordedNames()
	rec := recordedNames[v.key]
	if len(rec) == 0 {
		return
	}
	cur := v.currentNames()
	byName := map[string]ssa.Value{}
	for _, b := range v.fn.Blocks {
		for _, in := range b.Instrs {
			if val, ok := in.(ssa.Value); ok {
				byName[val.Name()] = val
			}
		}
	}
	for _, p := range v.fn.Params {
		byName[p.Name()] = p
	}
	var names []string
	for n := range rec {
		names = append(names, n)
	}
	sort.Strings(names)
	for _, n := range names {
		if _, still := cur[n]; still {
			continue
		}
		bound := false
		for _, r := range rec[n] {
			val := byName[r.SSA]
			if val == nil || val.Type().String() != r.Type {
				continue
			}
			switch r.Kind {
			case "phi":
				if ph, ok := val.(*ssa.Phi); ok {
					if v.phiAlias == nil {
						v.phiAlias = map[*ssa.Phi][]string{}
					}
					v.phiAlias[ph] = append(v.phiAlias[ph], n)
					bound = true
				}
			case "alloc":
				if a, ok := val.(*ssa.Alloc); ok {
					if _, taken := v.addrNames[n]; !taken {
						v.addrNames[n] = a
						bound = true
					}
				}
			default:
				v.dbg[val] = append(v.dbg[val], n)
				bound = true
			}
		}
		if bound {
			v.notes = append(v.notes, "local "+n+" no longer exists under that name; the contract's name is kept for the same SSA value (recorded with the baseline)")
		}
	}
}
