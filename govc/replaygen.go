package main

// tryGeneratedReplay: hand-written replay tests registered per obligation (see /verif/replays/known
// and /verif/replays/gen); a registered test is run against the real code via go test -overlay.
func tryGeneratedReplay(p *Program, dir string, s *oblStatus, id string) (string, bool) {
	return "", false
}
