package main

import (
	"fmt"
	"go/types"
	"math/big"
	"strings"
)

// typeName returns a short stable name for a Go type (package name qualified).
func typeName(t types.Type) string {
	return types.TypeString(t, func(p *types.Package) string { return p.Name() })
}

func isErrorType(t types.Type) bool {
	n, ok := t.(*types.Named)
	return ok && n.Obj().Pkg() == nil && n.Obj().Name() == "error"
}

// sortOf maps a Go type to an SMT sort, registering datatypes on demand.
func (sr *SortReg) sortOf(t types.Type) string {
	switch u := t.Underlying().(type) {
	case *types.Basic:
		switch {
		case u.Info()&types.IsBoolean != 0:
			return "Bool"
		case u.Info()&types.IsInteger != 0:
			return "Int"
		case u.Info()&types.IsString != 0:
			return "Str"
		case u.Info()&types.IsFloat != 0:
			return "Real"
		case u.Kind() == types.UnsafePointer:
			return "Int"
		case u.Kind() == types.UntypedNil:
			return "Int"
		}
		return "Int"
	case *types.Pointer:
		return "Int"
	case *types.Slice:
		return "Slice"
	case *types.Map, *types.Chan, *types.Signature:
		return "Int"
	case *types.Interface:
		return "Val"
	case *types.Struct:
		return sr.structSortOf(t, u)
	case *types.Array:
		// arrays as values are not supported; give them an uninterpreted sort
		n := "Arr_" + mangle(typeName(t))
		if !sr.uninterp[n] {
			sr.uninterp[n] = true
			sr.uninterpO = append(sr.uninterpO, n)
		}
		return n
	case *types.Tuple:
		return "Tuple"
	}
	return "Int"
}

func (sr *SortReg) structSortOf(t types.Type, st *types.Struct) string {
	name := "S_" + mangle(typeName(t))
	if _, ok := t.(*types.Named); !ok {
		name = "S_anon_" + mangle(typeName(t))
	}
	if len(name) > 120 {
		name = fmt.Sprintf("%s_h%x", name[:100], hashStr(name))
	}
	if _, ok := sr.structs[name]; ok {
		return name
	}
	ss := &structSort{Name: name, Ctor: "mk!" + name, GoT: st, Named: t}
	sr.structs[name] = ss
	// register before recursing (recursive types)
	for i := 0; i < st.NumFields(); i++ {
		f := st.Field(i)
		ss.Fields = append(ss.Fields, selField{Name: name + "!" + f.Name(), Sort: sr.sortOf(f.Type())})
	}
	sr.order = append(sr.order, name)
	return name
}

func hashStr(s string) uint32 {
	var h uint32 = 2166136261
	for i := 0; i < len(s); i++ {
		h ^= uint32(s[i])
		h *= 16777619
	}
	return h
}

// valCtorFor returns the Val constructor for dynamic type t.
func (sr *SortReg) valCtorFor(t types.Type) *valCtor {
	key := typeName(t)
	name := "V!" + mangle(key)
	if c, ok := sr.valCtors[name]; ok {
		return c
	}
	c := &valCtor{Name: name, Sel: "v!" + mangle(key), GoT: t, TypeKey: key}
	if st, ok := t.Underlying().(*types.Struct); ok && st.NumFields() == 0 {
		c.Sort = ""
	} else {
		c.Sort = sr.sortOf(t)
	}
	sr.valCtors[name] = c
	sr.valOrder = append(sr.valOrder, name)
	return c
}

// intRange returns (lo, hi) inclusive for integer basic types; ok=false for non-integers.
func intRange(t types.Type) (lo, hi *big.Int, ok bool) {
	b, isB := t.Underlying().(*types.Basic)
	if !isB || b.Info()&types.IsInteger == 0 {
		return nil, nil, false
	}
	bits := 64
	signed := true
	switch b.Kind() {
	case types.Int8:
		bits = 8
	case types.Int16:
		bits = 16
	case types.Int32:
		bits = 32
	case types.Int64, types.Int:
		bits = 64
	case types.Uint8:
		bits, signed = 8, false
	case types.Uint16:
		bits, signed = 16, false
	case types.Uint32:
		bits, signed = 32, false
	case types.Uint64, types.Uint, types.Uintptr:
		bits, signed = 64, false
	case types.UntypedInt, types.UntypedRune:
		return nil, nil, false
	}
	one := big.NewInt(1)
	if signed {
		h := new(big.Int).Lsh(one, uint(bits-1))
		return new(big.Int).Neg(h), new(big.Int).Sub(h, one), true
	}
	h := new(big.Int).Lsh(one, uint(bits))
	return big.NewInt(0), new(big.Int).Sub(h, one), true
}

func rangeFact(term string, t types.Type) string {
	lo, hi, ok := intRange(t)
	if !ok {
		return "true"
	}
	return "(and (<= " + bigLit(lo.String()) + " " + term + ") (<= " + term + " " + bigLit(hi.String()) + "))"
}

// wrapInt wraps a mathematical integer term into the range of t (exact machine semantics).
func wrapInt(term string, t types.Type) string {
	lo, hi, ok := intRange(t)
	if !ok {
		return term
	}
	if lo.Sign() == 0 {
		m := new(big.Int).Add(hi, big.NewInt(1))
		return "(wrapu " + term + " " + m.String() + ")"
	}
	h := new(big.Int).Add(hi, big.NewInt(1))
	return "(wraps " + term + " " + h.String() + ")"
}

// zeroValue returns the SMT zero value of a Go type.
func (sr *SortReg) zeroValue(t types.Type) string {
	s := sr.sortOf(t)
	switch s {
	case "Int":
		return "0"
	case "Bool":
		return "false"
	case "Str":
		return "str!empty"
	case "Real":
		return "0.0"
	case "Slice":
		return "(mk-slice 0 0 0 0)"
	case "Val":
		return "VNil"
	}
	if ss, ok := sr.structs[s]; ok {
		var args []string
		for i := 0; i < ss.GoT.NumFields(); i++ {
			args = append(args, sr.zeroValue(ss.GoT.Field(i).Type()))
		}
		return app(ss.Ctor, args...)
	}
	return "zero!" + s
}

func isStructPtr(t types.Type) (*types.Struct, types.Type, bool) {
	p, ok := t.Underlying().(*types.Pointer)
	if !ok {
		return nil, nil, false
	}
	st, ok := p.Elem().Underlying().(*types.Struct)
	if !ok {
		return nil, nil, false
	}
	return st, p.Elem(), true
}

func fieldMapName(structT types.Type, field string) string {
	return "H!" + mangle(typeName(structT)) + "!" + field
}

func elemMapNameT(t types.Type) string {
	// byte and rune are aliases: one heap map per underlying element type
	if b, ok := t.(*types.Basic); ok {
		switch b.Kind() {
		case types.Uint8:
			return "E!uint8"
		case types.Int32:
			return "E!int32"
		}
	}
	return "E!" + mangle(typeName(t))
}

func cellMapName(sort string) string {
	return "C!" + mangle(strings.ReplaceAll(sort, " ", "_"))
}
