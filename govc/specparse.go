package main

// Parser for the contract expression language (Gobra-like surface syntax).

import (
	"fmt"
	"strings"
	"unicode"
)

type Expr interface{}

type (
	EIdent struct{ Name string }
	EInt   struct{ Val string }
	EBool  struct{ Val bool }
	ENil   struct{}
	EStr   struct{ S string }
	EUnary struct {
		Op string
		X  Expr
	}
	EBinary struct {
		Op   string
		L, R Expr
	}
	ECond  struct{ C, A, B Expr }
	EField struct {
		X    Expr
		Name string
	}
	EIndex struct{ X, I Expr }
	ESlice struct{ X, Lo, Hi Expr }
	ECall  struct {
		Fn   Expr
		Args []Expr
	}
	EQuant struct {
		Forall bool
		Vars   []QVar
		Body   Expr
	}
	ETypeAssert struct {
		X Expr
		T *TypeExpr
	}
	ELet struct {
		Name string
		Val  Expr
		Body Expr
	}
	ETypeLit struct{ T *TypeExpr }
)

type QVar struct {
	Name string
	T    *TypeExpr
}

// TypeExpr is a syntactic type: Kind in {"name","ptr","slice","map","iface"}.
type TypeExpr struct {
	Kind string
	Pkg  string
	Name string
	Elem *TypeExpr
	Key  *TypeExpr
}

func (t *TypeExpr) String() string {
	switch t.Kind {
	case "ptr":
		return "*" + t.Elem.String()
	case "slice":
		return "[]" + t.Elem.String()
	case "map":
		return "map[" + t.Key.String() + "]" + t.Elem.String()
	case "iface":
		return "interface{}"
	}
	if t.Pkg != "" {
		return t.Pkg + "." + t.Name
	}
	return t.Name
}

type tok struct {
	k string // "id", "int", "str", "op", "eof"
	s string
	p int
}

type lexer struct {
	src  string
	toks []tok
}

var ops3 = []string{"<==>", "==>", "::", "==", "!=", "<=", ">=", "&&", "||", "++"}

func lex(src string) ([]tok, error) {
	var toks []tok
	i := 0
	for i < len(src) {
		c := src[i]
		if c == ' ' || c == '\t' || c == '\n' || c == '\r' {
			i++
			continue
		}
		if c == '/' && i+1 < len(src) && src[i+1] == '/' {
			// comment to end of line
			for i < len(src) && src[i] != '\n' {
				i++
			}
			continue
		}
		if unicode.IsLetter(rune(c)) || c == '_' || c == '$' {
			j := i
			for j < len(src) && (unicode.IsLetter(rune(src[j])) || unicode.IsDigit(rune(src[j])) || src[j] == '_' || src[j] == '$') {
				j++
			}
			toks = append(toks, tok{"id", src[i:j], i})
			i = j
			continue
		}
		if c >= '0' && c <= '9' {
			j := i
			for j < len(src) && (src[j] >= '0' && src[j] <= '9' || src[j] == '_') {
				j++
			}
			toks = append(toks, tok{"int", strings.ReplaceAll(src[i:j], "_", ""), i})
			i = j
			continue
		}
		if c == '"' {
			j := i + 1
			var sb strings.Builder
			for j < len(src) && src[j] != '"' {
				if src[j] == '\\' && j+1 < len(src) {
					j++
					switch src[j] {
					case 'n':
						sb.WriteByte('\n')
					case 't':
						sb.WriteByte('\t')
					case 'r':
						sb.WriteByte('\r')
					default:
						sb.WriteByte(src[j])
					}
				} else {
					sb.WriteByte(src[j])
				}
				j++
			}
			if j >= len(src) {
				return nil, fmt.Errorf("unterminated string at %d", i)
			}
			toks = append(toks, tok{"str", sb.String(), i})
			i = j + 1
			continue
		}
		matched := false
		for _, op := range ops3 {
			if strings.HasPrefix(src[i:], op) {
				toks = append(toks, tok{"op", op, i})
				i += len(op)
				matched = true
				break
			}
		}
		if matched {
			continue
		}
		if strings.ContainsRune("+-*/%<>!()[]{}.,:?=&|", rune(c)) {
			toks = append(toks, tok{"op", string(c), i})
			i++
			continue
		}
		return nil, fmt.Errorf("unexpected character %q at %d in %q", c, i, src)
	}
	toks = append(toks, tok{"eof", "", len(src)})
	return toks, nil
}

type sparser struct {
	toks []tok
	pos  int
	src  string
}

func parseExpr(src string) (Expr, error) {
	toks, err := lex(src)
	if err != nil {
		return nil, err
	}
	p := &sparser{toks: toks, src: src}
	var e Expr
	err = p.catch(func() { e = p.expr(0) })
	if err != nil {
		return nil, err
	}
	if p.peek().k != "eof" {
		return nil, fmt.Errorf("trailing tokens at %d (%q) in %q", p.peek().p, p.peek().s, src)
	}
	return e, nil
}

type parseErr struct{ msg string }

func (p *sparser) catch(f func()) (err error) {
	defer func() {
		if r := recover(); r != nil {
			if pe, ok := r.(parseErr); ok {
				err = fmt.Errorf("%s", pe.msg)
				return
			}
			panic(r)
		}
	}()
	f()
	return nil
}

func (p *sparser) fail(format string, args ...interface{}) {
	panic(parseErr{fmt.Sprintf(format, args...) + fmt.Sprintf(" (at %d in %q)", p.peek().p, p.src)})
}

func (p *sparser) peek() tok { return p.toks[p.pos] }
func (p *sparser) next() tok { t := p.toks[p.pos]; p.pos++; return t }
func (p *sparser) isOp(s string) bool {
	t := p.peek()
	return t.k == "op" && t.s == s
}
func (p *sparser) isId(s string) bool {
	t := p.peek()
	return t.k == "id" && t.s == s
}
func (p *sparser) expectOp(s string) {
	if !p.isOp(s) {
		p.fail("expected %q, got %q", s, p.peek().s)
	}
	p.pos++
}

// precedence levels (low to high): <==> 1, ==> 2, ?: 3, || 4, && 5, cmp 6, + - 7, * / % 8
func binPrec(op string) int {
	switch op {
	case "<==>":
		return 1
	case "==>":
		return 2
	case "||":
		return 4
	case "&&":
		return 5
	case "==", "!=", "<", "<=", ">", ">=":
		return 6
	case "+", "-", "++":
		return 7
	case "*", "/", "%":
		return 8
	}
	return -1
}

func (p *sparser) expr(minPrec int) Expr {
	// quantifiers and let bind as far right as possible
	if p.isId("forall") || p.isId("exists") {
		return p.quant()
	}
	if p.isId("let") {
		p.next()
		name := p.next().s
		p.expectOp("=")
		val := p.expr(3)
		if !p.isId("in") {
			p.fail("expected 'in'")
		}
		p.next()
		body := p.expr(0)
		return &ELet{Name: name, Val: val, Body: body}
	}
	lhs := p.unary()
	for {
		t := p.peek()
		if t.k != "op" {
			break
		}
		if t.s == "?" && minPrec <= 3 {
			p.next()
			a := p.expr(3)
			p.expectOp(":")
			b := p.expr(3)
			lhs = &ECond{C: lhs, A: a, B: b}
			continue
		}
		prec := binPrec(t.s)
		if prec < 0 || prec < minPrec {
			break
		}
		p.next()
		var rhs Expr
		if t.s == "==>" || t.s == "<==>" {
			rhs = p.expr(prec) // right assoc
		} else {
			rhs = p.expr(prec + 1)
		}
		lhs = &EBinary{Op: t.s, L: lhs, R: rhs}
	}
	return lhs
}

func (p *sparser) quant() Expr {
	forall := p.next().s == "forall"
	var vars []QVar
	for {
		var names []string
		names = append(names, p.next().s)
		for p.isOp(",") {
			p.next()
			names = append(names, p.next().s)
		}
		t := p.typeExpr()
		for _, n := range names {
			vars = append(vars, QVar{Name: n, T: t})
		}
		if p.isOp("::") {
			break
		}
		if p.isOp(",") {
			p.next()
			continue
		}
		p.fail("expected '::' in quantifier")
	}
	p.expectOp("::")
	body := p.expr(0)
	return &EQuant{Forall: forall, Vars: vars, Body: body}
}

func (p *sparser) typeExpr() *TypeExpr {
	if p.isOp("*") {
		p.next()
		return &TypeExpr{Kind: "ptr", Elem: p.typeExpr()}
	}
	if p.isOp("[") {
		p.next()
		p.expectOp("]")
		return &TypeExpr{Kind: "slice", Elem: p.typeExpr()}
	}
	t := p.next()
	if t.k != "id" {
		p.fail("expected type, got %q", t.s)
	}
	if t.s == "interface" {
		p.expectOp("{")
		p.expectOp("}")
		return &TypeExpr{Kind: "iface"}
	}
	if t.s == "any" {
		return &TypeExpr{Kind: "iface"}
	}
	if t.s == "map" {
		p.expectOp("[")
		k := p.typeExpr()
		p.expectOp("]")
		v := p.typeExpr()
		return &TypeExpr{Kind: "map", Key: k, Elem: v}
	}
	if p.isOp(".") && p.toks[p.pos+1].k == "id" {
		p.next()
		n := p.next()
		return &TypeExpr{Kind: "name", Pkg: t.s, Name: n.s}
	}
	return &TypeExpr{Kind: "name", Name: t.s}
}

func (p *sparser) unary() Expr {
	if p.isOp("!") {
		p.next()
		return &EUnary{Op: "!", X: p.unary()}
	}
	if p.isOp("-") {
		p.next()
		return &EUnary{Op: "-", X: p.unary()}
	}
	if p.isOp("&") {
		// address of a package-level variable
		p.next()
		return &EUnary{Op: "&", X: p.unary()}
	}
	return p.postfix(p.primary())
}

func (p *sparser) primary() Expr {
	t := p.next()
	switch t.k {
	case "int":
		return &EInt{Val: t.s}
	case "str":
		return &EStr{S: t.s}
	case "id":
		switch t.s {
		case "true":
			return &EBool{true}
		case "false":
			return &EBool{false}
		case "nil":
			return &ENil{}
		case "typ":
			// typ(T): a type literal, for typeof(x) == typ(T)
			p.expectOp("(")
			te := p.typeExpr()
			p.expectOp(")")
			return &ETypeLit{T: te}
		}
		return &EIdent{Name: t.s}
	case "op":
		if t.s == "(" {
			e := p.expr(0)
			p.expectOp(")")
			return e
		}
		if t.s == "*" {
			// *T used as conversion target or type literal: (*T)(x) is not supported; treat as type literal
			p.pos--
			te := p.typeExpr()
			return &ETypeLit{T: te}
		}
	}
	p.fail("unexpected token %q", t.s)
	return nil
}

func (p *sparser) postfix(e Expr) Expr {
	for {
		switch {
		case p.isOp("."):
			p.next()
			if p.isOp("(") {
				p.next()
				te := p.typeExpr()
				p.expectOp(")")
				e = &ETypeAssert{X: e, T: te}
				continue
			}
			n := p.next()
			if n.k != "id" {
				p.fail("expected field name")
			}
			e = &EField{X: e, Name: n.s}
		case p.isOp("["):
			p.next()
			var lo Expr
			if !p.isOp(":") {
				lo = p.expr(0)
			}
			if p.isOp(":") {
				p.next()
				var hi Expr
				if !p.isOp("]") {
					hi = p.expr(0)
				}
				p.expectOp("]")
				e = &ESlice{X: e, Lo: lo, Hi: hi}
			} else {
				p.expectOp("]")
				e = &EIndex{X: e, I: lo}
			}
		case p.isOp("("):
			p.next()
			var args []Expr
			for !p.isOp(")") {
				args = append(args, p.expr(0))
				if p.isOp(",") {
					p.next()
				} else {
					break
				}
			}
			p.expectOp(")")
			e = &ECall{Fn: e, Args: args}
		default:
			return e
		}
	}
}
