package main

import (
	"strings"
	"testing"

	"github.com/mk6i/mkdb/storage"
)

// more source than destination columns: makeConfig accepts the mapping, the first record panics in csvToSql
func TestReplayMakeConfigLen(t *testing.T) {
	rm := &mockRelationManager{
		fetch: func(tableName string) ([]*storage.Row, []*storage.Field, error) {
			return []*storage.Row{
					{Vals: []interface{}{"author", "name", int64(storage.TypeVarchar)}},
				},
				[]*storage.Field{{Column: "table_name"}, {Column: "field_name"}, {Column: "field_type"}}, nil
		},
	}
	*cfgDb, *cfgTable, *cfgDestCols, *cfgSrcCols, *cfgSep = "d", "author", "name", "0,1", ","
	cfg, err := makeConfig(rm)
	if err != nil {
		t.Skipf("mapping refused: %v", err)
	}
	t.Logf("accepted: colTypes=%d srcCols=%d", len(cfg.colTypes), len(cfg.srcCols))
	defer func() {
		if r := recover(); r != nil {
			t.Fatalf("csvToSql panics on a two-field record: %v", r)
		}
	}()
	_, err = csvToSql(cfg, strings.Split("a,b", ","))
	t.Logf("err=%v", err)
}
