//replay pkg=storage run=TestVerifReplayCreateTableUnlocked race=1
package storage

// Replay for obligation storage.(*RelationService).CreateTable/pre.*fsLocked (property C13):
// every function that reads or changes page, cache or header state of a store whose flush timer
// is running must hold the store's lock. CreateTable changed pages, the LRU cache map and the
// header counters with no lock held, while the 100 ms flush goroutine iterates the same cache map
// and reads the same counters under its exclusive lock.
// Schedule: open a store (timer running), create tables for ~400 ms so that several timer ticks
// overlap table creation; the happens-before race detector reports the unsynchronised accesses.

import (
	"fmt"
	"os"
	"testing"
	"time"
)

func TestVerifReplayCreateTableUnlocked(t *testing.T) {
	dir := t.TempDir()
	wd, _ := os.Getwd()
	defer os.Chdir(wd)
	os.Chdir(dir)
	if err := MakeDataDir(); err != nil {
		t.Fatal(err)
	}
	if err := CreateDB("d"); err != nil {
		t.Fatal(err)
	}
	rs, err := OpenRelation("d", false)
	if err != nil {
		t.Fatal(err)
	}
	defer rs.Close()
	rel := &Relation{Fields: []FieldDef{{Name: "id", DataType: TypeInt}}}
	deadline := time.Now().Add(400 * time.Millisecond)
	for i := 0; time.Now().Before(deadline); i++ {
		if err := rs.CreateTable(rel, fmt.Sprintf("t%d", i)); err != nil {
			t.Fatal(err)
		}
	}
}
