package main

import (
	"strings"
	"testing"

	"github.com/mk6i/mkdb/storage"
)

// a table name that makes the catalog query unparsable ("a' limit"): colDataTypes returns (nil, nil), makeConfig
// accepts the configuration without column types, and the first record panics in csvToSql
func TestReplayColDataTypesParseErr(t *testing.T) {
	rm := &mockRelationManager{
		fetch: func(tableName string) ([]*storage.Row, []*storage.Field, error) {
			return []*storage.Row{
					{Vals: []interface{}{"author", "name", int64(storage.TypeVarchar)}},
				},
				[]*storage.Field{{Column: "table_name"}, {Column: "field_name"}, {Column: "field_type"}}, nil
		},
	}
	*cfgDb, *cfgTable, *cfgDestCols, *cfgSrcCols, *cfgSep = "d", "a' limit", "name", "0", ","
	cfg, err := makeConfig(rm)
	if err != nil {
		t.Skipf("configuration refused: %v", err)
	}
	t.Logf("accepted: colTypes=%d srcCols=%d", len(cfg.colTypes), len(cfg.srcCols))
	defer func() {
		if r := recover(); r != nil {
			t.Fatalf("csvToSql panics on a one-field record: %v", r)
		}
	}()
	_, err = csvToSql(cfg, strings.Split("a", ","))
	t.Logf("err=%v", err)
}
