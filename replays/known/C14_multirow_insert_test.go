//replay pkg=engine run=TestVerifReplayMultiRowInsertNotAtomic
package engine

// Replay for obligation engine.EvaluateInsert/post.err.atomic (property C14):
// a statement that returns an error must change nothing. EvaluateInsert applies the rows one by
// one and returns on the first failing row, so the rows before it stay in the table (unlogged,
// and written to the data file by the next page flush).
// Input: CREATE TABLE t (a int); INSERT INTO t (a) VALUES (1), ('x'), (3)  -> type error on row 2.

import (
	"os"
	"testing"

	"github.com/mk6i/mkdb/storage"
)

func TestVerifReplayMultiRowInsertNotAtomic(t *testing.T) {
	dir := t.TempDir()
	wd, _ := os.Getwd()
	defer os.Chdir(wd)
	os.Chdir(dir)
	s := Session{}
	defer s.Close()
	for _, q := range []string{`CREATE DATABASE d`, `USE d`, `CREATE TABLE t (a int)`} {
		if err := s.ExecQuery(q); err != nil {
			t.Fatalf("%s: %v", q, err)
		}
	}
	err := s.ExecQuery(`INSERT INTO t (a) VALUES (1), ('x'), (3)`)
	if err == nil {
		t.Fatal("the INSERT with a string in an int column was accepted")
	}
	s.RelationService.StartTxn()
	rows, _, ferr := s.RelationService.Fetch("t")
	s.RelationService.EndTxn()
	if ferr != nil {
		t.Fatal(ferr)
	}
	if len(rows) != 0 {
		t.Fatalf("REPRODUCED: INSERT returned %q but table t now holds %d row(s)", err, len(rows))
	}
	_ = storage.ErrTypeMismatch
}
