//replay pkg=storage run=TestVerifReplayPartialFlushLosesRows
package storage

// Replay for obligation storage.(*BTree).insertKey/post.redo.page (property C04):
// recovery decides whether to redo a log record by comparing the record's LSN with the LSN stamp
// of the ONE page the record names. An INSERT record names the root page of the table's tree, but
// the row goes into the right-most leaf; the root is stamped only when a split reaches it. Pages
// reach the data file one by one (flushPages ranges over a Go map), so a crash inside a flush can
// leave the root on disk with a stamp above records whose leaf pages were not written yet:
// recovery then skips those records and acknowledged rows are gone.
// History: CREATE a; 9 inserts (the root leaf splits: height 2); complete flush; inserts 10..13
// (10..12 go into the right-most leaf without touching the root, 13 splits that leaf and stamps
// the root); the next flush writes the root page first and the process dies before the second
// page write.

import (
	"os"
	"path/filepath"
	"testing"
)

func verifCopyTreeC04(t *testing.T, src, dst string) {
	ents, err := os.ReadDir(src)
	if err != nil {
		t.Fatal(err)
	}
	if err := os.MkdirAll(dst, 0755); err != nil {
		t.Fatal(err)
	}
	for _, e := range ents {
		if e.IsDir() {
			verifCopyTreeC04(t, filepath.Join(src, e.Name()), filepath.Join(dst, e.Name()))
			continue
		}
		b, err := os.ReadFile(filepath.Join(src, e.Name()))
		if err != nil {
			t.Fatal(err)
		}
		if err := os.WriteFile(filepath.Join(dst, e.Name()), b, 0644); err != nil {
			t.Fatal(err)
		}
	}
}

func TestVerifReplayPartialFlushLosesRows(t *testing.T) {
	live := t.TempDir()
	crashed := t.TempDir()
	wd, _ := os.Getwd()
	defer os.Chdir(wd)
	os.Chdir(live)
	if err := MakeDataDir(); err != nil {
		t.Fatal(err)
	}
	if err := CreateDB("d"); err != nil {
		t.Fatal(err)
	}
	rs, err := OpenRelation("d", true)
	if err != nil {
		t.Fatal(err)
	}
	if err := rs.CreateTable(&Relation{Fields: []FieldDef{{Name: "id", DataType: TypeInt}}}, "a"); err != nil {
		t.Fatal(err)
	}
	ins := func(v int64) { // caller holds the statement bracket
		batch, err := rs.Insert("a", []string{"id"}, []interface{}{v})
		if err != nil {
			t.Fatal(err)
		}
		if err := rs.FlushWALBatch(batch); err != nil {
			t.Fatal(err)
		}
	}
	rs.StartTxn()
	for v := int64(1); v <= 9; v++ {
		ins(v)
	}
	rs.EndTxn()
	if err := rs.fs.flushPages(); err != nil { // a complete flush: disk == cache
		t.Fatal(err)
	}
	rs.StartTxn() // one bracket: the timer cannot flush in between
	for v := int64(10); v <= 13; v++ {
		ins(v)
	}
	off, err := rs.getRelationFileOffset("a")
	if err != nil {
		t.Fatal(err)
	}
	root, err := rs.fs.fetch(uint64(off))
	if err != nil {
		t.Fatal(err)
	}
	if root.isLeaf || !root.isDirty() {
		t.Fatalf("setup: root leaf=%v dirty=%v", root.isLeaf, root.isDirty())
	}
	// first step of the next flushPages (map order put the root first) ...
	if err := rs.fs.update(root); err != nil {
		t.Fatal(err)
	}
	// ... and the process dies before the second page write
	verifCopyTreeC04(t, filepath.Join(live, "data"), filepath.Join(crashed, "data"))
	rs.EndTxn()
	rs.Close()

	os.Chdir(crashed)
	if err := InitStorage(); err != nil {
		t.Fatalf("REPRODUCED: the database does not start after a crash inside a flush: %v", err)
	}
	rs2, err := OpenRelation("d", true)
	if err != nil {
		t.Fatal(err)
	}
	defer rs2.Close()
	rs2.StartTxn()
	rows, _, err := rs2.Fetch("a")
	rs2.EndTxn()
	if err != nil {
		t.Fatalf("REPRODUCED: table a is unreadable after a crash inside a flush: %v", err)
	}
	if len(rows) != 13 {
		t.Errorf("REPRODUCED: after a crash inside a flush and recovery table a has %d rows, want 13 (all 13 inserts were acknowledged and logged)", len(rows))
	}
}
