//replay pkg=cmd/csvimport run=TestVerifReplayCSVBigIntNull
package main

// Replay for obligation csvimport.csvToSql/inv.preserve.1.3 (property C19):
// every accepted record is stored with its mapped fields converted to the column types. csvToSql
// had no case for BIGINT columns, so a field destined for a BIGINT column was silently stored as
// NULL although the record was accepted.

import (
	"testing"

	"github.com/mk6i/mkdb/storage"
)

func TestVerifReplayCSVBigIntNull(t *testing.T) {
	cfg := importCfg{colTypes: []storage.DataType{storage.TypeBigInt}, srcCols: []int{0}}
	row, err := csvToSql(cfg, []string{"5000000000"})
	if err != nil {
		t.Fatal(err)
	}
	if row[0] == nil {
		t.Fatalf("REPRODUCED: field \"5000000000\" for a BIGINT column was converted to NULL: %v", row)
	}
	if v, ok := row[0].(int64); !ok || v != 5000000000 {
		t.Fatalf("REPRODUCED: field \"5000000000\" for a BIGINT column became %v", row[0])
	}
}
