//replay pkg=engine run=TestVerifReplayUseSession
package engine

// Replay for obligations engine.(*Session).ExecQuery/post.errorframe and /post.inv (properties C17, C18):
//  (a) a failed USE must leave the session unchanged and usable: USE nosuch; then any statement
//      dereferences a nil RelationService;
//  (b) re-selecting a database must not leave a second store (with its own flush timer and stale
//      header copy) open on the same file: USE d; USE d; INSERT...; close; the stale store keeps
//      writing its old header, so after a restart row ids are handed out again.

import (
	"fmt"
	"os"
	"testing"
	"time"

	"github.com/mk6i/mkdb/sql"
	"github.com/mk6i/mkdb/storage"
)

func TestVerifReplayUseSession(t *testing.T) {
	dir := t.TempDir()
	wd, _ := os.Getwd()
	defer os.Chdir(wd)
	os.Chdir(dir)
	devnull, _ := os.Open(os.DevNull)
	old := os.Stdout
	os.Stdout, _ = os.OpenFile(os.DevNull, os.O_WRONLY, 0)
	defer func() { os.Stdout = old; devnull.Close() }()

	if err := storage.InitStorage(); err != nil {
		t.Fatal(err)
	}
	s := &Session{}
	must := func(q string) {
		if err := s.ExecQuery(q); err != nil {
			t.Fatalf("%s: %v", q, err)
		}
	}
	must("CREATE DATABASE d")
	must("USE d")
	must("CREATE TABLE t (a int)")
	must("INSERT INTO t (a) VALUES (1)")

	// (a) failed USE, then a statement
	func() {
		defer func() {
			if r := recover(); r != nil {
				t.Errorf("REPRODUCED (a): statement after a failed USE panicked: %v", fmt.Sprint(r))
				s = &Session{}
				must("USE d")
			}
		}()
		if err := s.ExecQuery("USE nosuch"); err == nil {
			t.Fatalf("USE nosuch succeeded")
		}
		if err := s.ExecQuery("INSERT INTO t (a) VALUES (2)"); err != nil {
			t.Errorf("REPRODUCED (a): session unusable after a failed USE: %v", err)
		}
	}()

	// (b) re-select the current database, write, close, let timers tick, restart
	must("USE d")
	must("INSERT INTO t (a) VALUES (3)")
	must("INSERT INTO t (a) VALUES (4)")
	time.Sleep(150 * time.Millisecond)
	if err := s.Close(); err != nil {
		t.Fatal(err)
	}
	time.Sleep(350 * time.Millisecond) // a leaked store would overwrite the header here
	if err := storage.InitStorage(); err != nil {
		t.Fatal(err)
	}
	s2 := &Session{}
	if err := s2.ExecQuery("USE d"); err != nil {
		t.Fatal(err)
	}
	if err := s2.ExecQuery("INSERT INTO t (a) VALUES (5)"); err != nil {
		t.Errorf("REPRODUCED (b): insert after re-selecting + restart failed: %v", err)
	}
	rows, _, err := EvaluateSelect(mustParseSelect(t, "SELECT * FROM t"), s2.RelationService)
	if err != nil {
		t.Fatal(err)
	}
	seen := map[uint32]bool{}
	for _, r := range rows {
		if seen[r.RowID] {
			t.Errorf("REPRODUCED (b): row id %d handed out twice", r.RowID)
		}
		seen[r.RowID] = true
	}
	s2.Close()
}

func mustParseSelect(t *testing.T, q string) sql.Select {
	stmt, err := parseSQL(q)
	if err != nil {
		t.Fatal(err)
	}
	return stmt.(sql.Select)
}
