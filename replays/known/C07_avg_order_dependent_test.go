//replay pkg=engine run=TestVerifReplayAvgOrderDependent
package engine

// Replay for obligation engine.aggregateRows/inv.preserve.2.avg.exact (property C07): the running
// average is rounded after every row, so AVG depends on the order of the rows and is not the sum
// divided by the count: AVG(1,2,4) = 3, AVG(4,2,1) = 2 (7/3 rounds to 2).

import (
	"testing"

	"github.com/mk6i/mkdb/sql"
	"github.com/mk6i/mkdb/storage"
)

func TestVerifReplayAvgOrderDependent(t *testing.T) {
	sl := sql.SelectList{{ValueExpressionPrimary: sql.Average{ValueExpression: sql.ColumnReference{ColumnName: "a"}}}}
	avg := func(vals ...int64) int64 {
		var rows []*storage.Row
		for _, v := range vals {
			rows = append(rows, &storage.Row{Vals: []interface{}{v}})
		}
		out, err := aggregateRows(sl, nil, rows)
		if err != nil || len(out) != 1 {
			t.Fatalf("aggregateRows: %v, %d rows", err, len(out))
		}
		return out[0].Vals[0].(int64)
	}
	if a, b := avg(1, 2, 4), avg(4, 2, 1); a != 2 || b != 2 {
		t.Errorf("REPRODUCED: AVG(1,2,4) = %d, AVG(4,2,1) = %d, want 2 for both (7/3 = 2.33)", a, b)
	}
	if a := avg(1, 1, 1, 1, 1, 1, 1, 1, 1, 10); a != 2 {
		t.Errorf("REPRODUCED: AVG(nine 1s, one 10) = %d, want 2 (19/10 = 1.9)", a)
	}
}
