//replay pkg=storage run=TestVerifReplayTornWALTail
package storage

// Replay for obligation storage.(*wal).read/post.tornTail (property C03):
// a crash while a statement is appending to the log leaves a log that ends inside a record (the
// 4-byte length was written, the body was not, or either is cut short). The database must still
// start and hold the effects of the complete records. wal.read returned io.ErrUnexpectedEOF for
// such a tail, so InitStorage failed and the database could not be opened again.
// History: CREATE TABLE, one INSERT (logged), crash after the length prefix of the next record.

import (
	"os"
	"path/filepath"
	"testing"
)

func TestVerifReplayTornWALTail(t *testing.T) {
	dir := t.TempDir()
	wd, _ := os.Getwd()
	defer os.Chdir(wd)
	os.Chdir(dir)
	if err := MakeDataDir(); err != nil {
		t.Fatal(err)
	}
	if err := CreateDB("d"); err != nil {
		t.Fatal(err)
	}
	rs, err := OpenRelation("d", true)
	if err != nil {
		t.Fatal(err)
	}
	rel := &Relation{Fields: []FieldDef{{Name: "id", DataType: TypeInt}}}
	if err := rs.CreateTable(rel, "t"); err != nil {
		t.Fatal(err)
	}
	rs.StartTxn()
	batch, err := rs.Insert("t", []string{"id"}, []interface{}{int64(1)})
	if err == nil {
		err = rs.FlushWALBatch(batch)
	}
	rs.EndTxn()
	if err != nil {
		t.Fatal(err)
	}
	if err := rs.Close(); err != nil {
		t.Fatal(err)
	}
	// the next statement dies right after writing the length prefix of its record
	f, err := os.OpenFile(filepath.Join("data", "d", "wal"), os.O_WRONLY|os.O_APPEND, 0644)
	if err != nil {
		t.Fatal(err)
	}
	f.Write([]byte{30, 0, 0, 0})
	f.Close()
	if err := InitStorage(); err != nil {
		t.Fatalf("REPRODUCED: the database does not start after a crash inside a log append: %v", err)
	}
	rs2, err := OpenRelation("d", true)
	if err != nil {
		t.Fatal(err)
	}
	defer rs2.Close()
	rows, _, err := rs2.Fetch("t")
	if err != nil || len(rows) != 1 {
		t.Fatalf("REPRODUCED: after recovery table t has %d rows (err %v), want the 1 acknowledged row", len(rows), err)
	}
}
