//replay pkg=storage run=TestVerifReplayCreateDBLeaksStore
package storage

// Replay for obligation storage.CreateDB/post.stores (property C17): a CREATE DATABASE that fails leaves no store
// open. CreateDB opened the data file with its flush timer (newFileStore(path, true)) and returned on the next
// two errors (header write, log creation) without releasing it: the goroutine keeps rewriting the header of the
// half-created data file every 100 ms for the rest of the process and the file stays open.
// Trigger: the log file of the new database cannot be created (here: data/d/wal exists as a directory).

import (
	"os"
	"path/filepath"
	"runtime"
	"strings"
	"testing"
	"time"
)

func verifFlushTimers() int {
	buf := make([]byte, 1<<20)
	n := runtime.Stack(buf, true)
	return strings.Count(string(buf[:n]), "storage.newFileStore.func1")
}

func TestVerifReplayCreateDBLeaksStore(t *testing.T) {
	dir := t.TempDir()
	wd, _ := os.Getwd()
	defer os.Chdir(wd)
	os.Chdir(dir)
	if err := MakeDataDir(); err != nil {
		t.Fatal(err)
	}
	if err := os.MkdirAll(filepath.Join("data", "d", "wal"), 0755); err != nil {
		t.Fatal(err)
	}
	before := verifFlushTimers()
	err := CreateDB("d")
	if err == nil {
		t.Fatal("setup: CreateDB succeeded although the log file cannot be created")
	}
	time.Sleep(20 * time.Millisecond)
	if after := verifFlushTimers(); after != before {
		t.Errorf("REPRODUCED: failed CreateDB (%v) left %d flush timer goroutine(s) running on the half-created data file", err, after-before)
	}
}
