//replay pkg=storage run=TestVerifReplayValidateNamedType
package storage

// Replay for obligations storage.(*FieldDef).Validate/nopanic.assert.1 and /post.varchar (property C08):
// a value of the wrong type must be refused with an error. Validate compared reflect kinds, so a
// value of a named type whose underlying type is int64 / string / bool (time.Duration, a string
// type, ...) passed the check; Validate itself then panicked on val.(int64) for INT columns, and
// Tuple.Encode panicked on its own type assertion for the other column types.

import (
	"testing"
	"time"
)

type verifNamedString string

func TestVerifReplayValidateNamedType(t *testing.T) {
	try := func(name string, f func() error) {
		defer func() {
			if r := recover(); r != nil {
				t.Errorf("REPRODUCED: %s panicked instead of refusing the value: %v", name, r)
			}
		}()
		if err := f(); err == nil {
			t.Errorf("REPRODUCED: %s accepted a value that is not of the column's type", name)
		}
	}
	try("Validate(INT, time.Duration(5))", func() error {
		return (&FieldDef{Name: "a", DataType: TypeInt}).Validate(time.Duration(5))
	})
	try("Encode(VARCHAR, named string)", func() error {
		tup := Tuple{
			Relation: &Relation{Fields: []FieldDef{{Name: "a", DataType: TypeVarchar, Len: 10}}},
			Vals:     map[string]interface{}{"a": verifNamedString("x")},
		}
		_, err := tup.Encode()
		return err
	})
}
