//replay pkg=sql run=TestVerifReplayGroupByCommaList
package sql

// Replay for obligation sql.(*Parser).GroupByClause/post.list.maximal (properties C07, C10): a GROUP BY list is
// not cut at a comma. GroupByClause read column references until something else came up and never consumed a
// comma, so the standard spelling `GROUP BY a, b` stopped after `a` and the statement was rejected at the comma
// ("unexpected token"): grouping by several columns was only possible in the non-standard spelling `GROUP BY a b`.

import (
	"strings"
	"testing"
)

func TestVerifReplayGroupByCommaList(t *testing.T) {
	text := "SELECT a, b, count(*) FROM t GROUP BY a, b ORDER BY a"
	ts := NewTokenScanner(strings.NewReader(text))
	tl := TokenList{}
	for ts.Next() {
		tl.Add(ts.Cur())
	}
	p := Parser{TokenList: tl}
	stmt, err := p.Parse()
	if err != nil {
		t.Fatalf("REPRODUCED: %q does not parse: %v", text, err)
	}
	sel, ok := stmt.(Select)
	if !ok {
		t.Fatalf("parsed %T", stmt)
	}
	gb := sel.TableExpression.GroupByClause
	if len(gb) != 2 || gb[0].ColumnName != "a" || gb[1].ColumnName != "b" {
		t.Errorf("REPRODUCED: GROUP BY a, b parsed as %v", gb)
	}
}
