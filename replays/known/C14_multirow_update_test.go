//replay pkg=engine run=TestVerifReplayMultiRowUpdateNotAtomic
package engine

// Replay for obligation engine.EvaluateUpdate/post.err.atomic (property C14):
// a statement that returns an error must change nothing. EvaluateUpdate applies the rows one by
// one and returns on the first failing row, so the rows before it keep their new values (unlogged,
// and written to the data file by the next page flush).
// Input: t(a varchar, b varchar) with rows ('x','p') and (<330 bytes>,'q');
// UPDATE t SET b = <100 bytes> fits row 1 and makes row 2 larger than a page cell may be.

import (
	"os"
	"strings"
	"testing"
)

func TestVerifReplayMultiRowUpdateNotAtomic(t *testing.T) {
	dir := t.TempDir()
	wd, _ := os.Getwd()
	defer os.Chdir(wd)
	os.Chdir(dir)
	s := Session{}
	defer s.Close()
	long := strings.Repeat("l", 330)
	for _, q := range []string{`CREATE DATABASE d`, `USE d`, `CREATE TABLE t (a varchar(400), b varchar(400))`,
		`INSERT INTO t (a, b) VALUES ('x', 'p')`, `INSERT INTO t (a, b) VALUES ('` + long + `', 'q')`} {
		if err := s.ExecQuery(q); err != nil {
			t.Fatalf("%s: %v", q[:20], err)
		}
	}
	err := s.ExecQuery(`UPDATE t SET b = '` + strings.Repeat("n", 100) + `'`)
	if err == nil {
		t.Fatal("setup: the UPDATE that makes row 2 oversized was accepted")
	}
	s.RelationService.StartTxn()
	rows, _, ferr := s.RelationService.Fetch("t")
	s.RelationService.EndTxn()
	if ferr != nil {
		t.Fatal(ferr)
	}
	if len(rows) != 2 {
		t.Fatalf("table t holds %d rows", len(rows))
	}
	if rows[0].Vals[1] != "p" {
		t.Fatalf("REPRODUCED: UPDATE returned %q but row 1 now holds b = %.12q...", err, rows[0].Vals[1])
	}
}
