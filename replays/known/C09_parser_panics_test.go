//replay pkg=engine run=TestVerifReplayParserPanics
package engine

// Replay for obligations (property C09):
//   sql.(*Parser).OrCondition/nopanic.assert.1   (AND result asserted to be a Predicate)
//   sql.(*Parser).AndCondition/nopanic.assert.1  (non-predicate operand of AND)
//   sql.(*Parser).requireInt/nopanic.assert.1    (integer literal beyond 64 bits)
// Each input must yield a statement or an error value, never a panic.

import (
	"fmt"
	"testing"
)

func TestVerifReplayParserPanics(t *testing.T) {
	inputs := []string{
		"SELECT * FROM t WHERE a = 1 AND b = 2 OR c = 3",
		"SELECT 1 AND 2",
		"SELECT 1 OR 2",
		"SELECT * FROM t LIMIT 99999999999999999999",
		"CREATE TABLE t (a varchar(99999999999999999999))",
	}
	for _, in := range inputs {
		func() {
			defer func() {
				if r := recover(); r != nil {
					t.Errorf("REPRODUCED: parseSQL(%q) panicked: %v", in, fmt.Sprint(r))
				}
			}()
			parseSQL(in)
		}()
	}
}
