//replay pkg=storage run=TestVerifReplayUpdateRecordAbortsRecovery
package storage

// Replay for obligation storage.(WALBatch).replay/post.abort.onlystore (properties C02, C03):
// recovery may fail only when the store fails. For an UPDATE record replay first decoded the
// record's value with the CATALOG schema (pageTableSchema: one VARCHAR, one BIGINT column) and
// returned that error; the decoded tuple was never used. A row of a user table is not an image
// of that schema, so after an acknowledged UPDATE and a crash before the next page flush
// InitStorage fails with "EOF" and the database no longer starts.

import (
	"os"
	"path/filepath"
	"testing"
)

func verifCopyTreeC02u(t *testing.T, src, dst string) {
	ents, err := os.ReadDir(src)
	if err != nil {
		t.Fatal(err)
	}
	if err := os.MkdirAll(dst, 0755); err != nil {
		t.Fatal(err)
	}
	for _, e := range ents {
		if e.IsDir() {
			verifCopyTreeC02u(t, filepath.Join(src, e.Name()), filepath.Join(dst, e.Name()))
			continue
		}
		b, err := os.ReadFile(filepath.Join(src, e.Name()))
		if err != nil {
			t.Fatal(err)
		}
		if err := os.WriteFile(filepath.Join(dst, e.Name()), b, 0644); err != nil {
			t.Fatal(err)
		}
	}
}

func TestVerifReplayUpdateRecordAbortsRecovery(t *testing.T) {
	live := t.TempDir()
	crashed := t.TempDir()
	wd, _ := os.Getwd()
	defer os.Chdir(wd)
	os.Chdir(live)
	if err := MakeDataDir(); err != nil {
		t.Fatal(err)
	}
	if err := CreateDB("d"); err != nil {
		t.Fatal(err)
	}
	rs, err := OpenRelation("d", true)
	if err != nil {
		t.Fatal(err)
	}
	if err := rs.CreateTable(&Relation{Fields: []FieldDef{{Name: "id", DataType: TypeInt}}}, "a"); err != nil {
		t.Fatal(err)
	}
	rs.StartTxn() // one bracket: no page flush between the statements and the crash
	batch, err := rs.Insert("a", []string{"id"}, []interface{}{int64(1)})
	if err != nil {
		t.Fatal(err)
	}
	if err := rs.FlushWALBatch(batch); err != nil {
		t.Fatal(err)
	}
	rowID := batch[0].cellID
	batch, err = rs.Update("a", rowID, []string{"id"}, []interface{}{int64(2)})
	if err != nil {
		t.Fatal(err)
	}
	if len(batch) != 1 {
		t.Fatalf("setup: UPDATE logged %d records", len(batch))
	}
	if err := rs.FlushWALBatch(batch); err != nil {
		t.Fatal(err)
	}
	verifCopyTreeC02u(t, filepath.Join(live, "data"), filepath.Join(crashed, "data"))
	rs.EndTxn()
	rs.Close()

	os.Chdir(crashed)
	if err := InitStorage(); err != nil {
		t.Fatalf("REPRODUCED: recovery fails after an acknowledged UPDATE and a crash: %v", err)
	}
	rs2, err := OpenRelation("d", true)
	if err != nil {
		t.Fatal(err)
	}
	defer rs2.Close()
	rs2.StartTxn()
	rows, _, err := rs2.Fetch("a")
	rs2.EndTxn()
	if err != nil {
		t.Fatal(err)
	}
	if len(rows) != 1 || rows[0].Vals[0] != int64(2) {
		t.Errorf("REPRODUCED: after recovery table a holds %v, want one row with id 2", rows)
	}
}
