//replay pkg=storage run=TestVerifReplayRecoveryLowersLSN
package storage

// Replay for obligation storage.(WALBatch).replay/post.L8 (property C02):
// recovery must never lower the LSN counter (every page stamp handed out so far stays below it).
// replay assigned fs._nextLSN = record.LSN for every record, so after recovery the counter was
// "last logged LSN + 1" even when the file header said more. CREATE TABLE consumes LSNs without
// logging anything, so its page stamps can be far above the last logged LSN.
// History: CREATE a; INSERT 1 row; CREATE b (30 columns), CREATE c (their catalog rows stamp the
// catalog pages with LSNs well above the INSERT's); clean restart => the counter drops below those stamps.
// Consequence: 9 more inserts split a's root; the root-move record gets an LSN below the stamp
// on the catalog page; crash before the next page flush; recovery skips the root move (record LSN
// <= page LSN): the catalog keeps naming the old root, so the next insert lands in the left leaf
// and SELECT returns rows out of insertion order.

import (
	"fmt"
	"os"
	"path/filepath"
	"testing"
)

func verifCopyTree(t *testing.T, src, dst string) {
	ents, err := os.ReadDir(src)
	if err != nil {
		t.Fatal(err)
	}
	if err := os.MkdirAll(dst, 0755); err != nil {
		t.Fatal(err)
	}
	for _, e := range ents {
		if e.IsDir() {
			verifCopyTree(t, filepath.Join(src, e.Name()), filepath.Join(dst, e.Name()))
			continue
		}
		b, err := os.ReadFile(filepath.Join(src, e.Name()))
		if err != nil {
			t.Fatal(err)
		}
		if err := os.WriteFile(filepath.Join(dst, e.Name()), b, 0644); err != nil {
			t.Fatal(err)
		}
	}
}

func TestVerifReplayRecoveryLowersLSN(t *testing.T) {
	live := t.TempDir()
	crashed := t.TempDir()
	wd, _ := os.Getwd()
	defer os.Chdir(wd)
	os.Chdir(live)
	if err := MakeDataDir(); err != nil {
		t.Fatal(err)
	}
	if err := CreateDB("d"); err != nil {
		t.Fatal(err)
	}
	rs, err := OpenRelation("d", true)
	if err != nil {
		t.Fatal(err)
	}
	insert := func(rs *RelationService, v int64) {
		rs.StartTxn()
		defer rs.EndTxn()
		batch, err := rs.Insert("a", []string{"id"}, []interface{}{v})
		if err != nil {
			t.Fatal(err)
		}
		if err := rs.FlushWALBatch(batch); err != nil {
			t.Fatal(err)
		}
	}
	if err := rs.CreateTable(&Relation{Fields: []FieldDef{{Name: "id", DataType: TypeInt}}}, "a"); err != nil {
		t.Fatal(err)
	}
	insert(rs, 1)
	wide := &Relation{}
	for i := 0; i < 30; i++ {
		wide.Fields = append(wide.Fields, FieldDef{Name: fmt.Sprintf("c%d", i), DataType: TypeInt})
	}
	if err := rs.CreateTable(wide, "b"); err != nil {
		t.Fatal(err)
	}
	// the catalog row of c stamps the sys_pages leaf with an LSN above everything b consumed
	if err := rs.CreateTable(&Relation{Fields: []FieldDef{{Name: "id", DataType: TypeInt}}}, "c"); err != nil {
		t.Fatal(err)
	}
	before := rs.fs.nextLSN()
	if err := rs.Close(); err != nil {
		t.Fatal(err)
	}
	if err := InitStorage(); err != nil {
		t.Fatal(err)
	}
	rs, err = OpenRelation("d", true)
	if err != nil {
		t.Fatal(err)
	}
	after := rs.fs.nextLSN()
	if after < before {
		t.Errorf("REPRODUCED: recovery lowered the LSN counter from %d to %d", before, after)
	}
	// consequence: acknowledged rows are lost after the next crash
	for v := int64(2); v <= 10; v++ {
		insert(rs, v)
	}
	rs.StartTxn() // holds off the flush timer while the "crashed" image is taken
	verifCopyTree(t, filepath.Join(live, "data"), filepath.Join(crashed, "data"))
	rs.EndTxn()
	rs.Close()
	os.Chdir(crashed)
	if err := InitStorage(); err != nil {
		t.Fatal(err)
	}
	rs2, err := OpenRelation("d", true)
	if err != nil {
		t.Fatal(err)
	}
	defer rs2.Close()
	insert(rs2, 11)
	rs2.StartTxn()
	rows, _, err := rs2.Fetch("a")
	rs2.EndTxn()
	if err != nil {
		t.Fatal(err)
	}
	if len(rows) != 11 {
		t.Errorf("REPRODUCED: after crash and recovery table a has %d rows, want 11", len(rows))
	}
	for i := 1; i < len(rows); i++ {
		if rows[i-1].RowID >= rows[i].RowID {
			t.Errorf("REPRODUCED: after crash and recovery the catalog still names the old root of a: the next row went into the left leaf (row ids %d, %d out of order)", rows[i-1].RowID, rows[i].RowID)
			break
		}
	}
}
