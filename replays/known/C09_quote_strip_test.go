//replay pkg=engine run=TestVerifReplayQuoteStrip
package engine

// Replay for obligations sql.(*tokenScanner).Cur/nopanic.slice.1 and .2 (property C09):
// stripping the quotes of a one-byte token text slices [1:0].

import (
	"fmt"
	"testing"
)

func TestVerifReplayQuoteStrip(t *testing.T) {
	for _, in := range []string{"'", "\"", "SELECT '", "INSERT INTO t VALUES (\""} {
		func() {
			defer func() {
				if r := recover(); r != nil {
					t.Errorf("REPRODUCED: parseSQL(%q) panicked: %v", in, fmt.Sprint(r))
				}
			}()
			parseSQL(in)
		}()
	}
}
