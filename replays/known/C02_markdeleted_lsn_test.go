//replay pkg=storage run=TestVerifReplayMarkDeletedLSN
package storage

// Replay for obligation storage.(*RelationService).MarkDeleted/post.L1 (property C02):
// every logged operation must take its own LSN (nextLSN' == nextLSN + len(batch)). MarkDeleted
// stamped the page and the record with nextLSN but never advanced the counter, so the next
// record reused the LSN; after a page flush the redo skip test (record LSN <= page LSN) then
// skips that acknowledged record.
// History: 3 inserts; DELETE first row; page flush; DELETE second row; crash (data dir copied while the
// statement lock is held, so no further page flush can intervene); recovery => the second row is back.

import (
	"os"
	"path/filepath"
	"testing"
)

func verifCopyDir(t *testing.T, src, dst string) {
	ents, err := os.ReadDir(src)
	if err != nil {
		t.Fatal(err)
	}
	if err := os.MkdirAll(dst, 0755); err != nil {
		t.Fatal(err)
	}
	for _, e := range ents {
		if e.IsDir() {
			verifCopyDir(t, filepath.Join(src, e.Name()), filepath.Join(dst, e.Name()))
			continue
		}
		b, err := os.ReadFile(filepath.Join(src, e.Name()))
		if err != nil {
			t.Fatal(err)
		}
		if err := os.WriteFile(filepath.Join(dst, e.Name()), b, 0644); err != nil {
			t.Fatal(err)
		}
	}
}

func TestVerifReplayMarkDeletedLSN(t *testing.T) {
	live := t.TempDir()
	crashed := t.TempDir()
	wd, _ := os.Getwd()
	defer os.Chdir(wd)
	os.Chdir(live)
	if err := MakeDataDir(); err != nil {
		t.Fatal(err)
	}
	if err := CreateDB("d"); err != nil {
		t.Fatal(err)
	}
	rs, err := OpenRelation("d", true)
	if err != nil {
		t.Fatal(err)
	}
	rel := &Relation{Fields: []FieldDef{{Name: "id", DataType: TypeInt}}}
	if err := rs.CreateTable(rel, "t"); err != nil {
		t.Fatal(err)
	}
	var ids []uint32
	stmt := func(f func() (WALBatch, error)) {
		rs.StartTxn()
		defer rs.EndTxn()
		before := rs.fs.nextLSN()
		batch, err := f()
		if err != nil {
			t.Fatal(err)
		}
		if err := rs.FlushWALBatch(batch); err != nil {
			t.Fatal(err)
		}
		if len(batch) > 0 && batch[0].WALOp == OpInsert {
			ids = append(ids, batch[0].cellID)
		}
		if got := rs.fs.nextLSN(); got != before+uint64(len(batch)) {
			t.Logf("L1 violated: nextLSN %d -> %d for a batch of %d records", before, got, len(batch))
		}
	}
	for i := 1; i <= 3; i++ {
		v := int64(i)
		stmt(func() (WALBatch, error) { return rs.Insert("t", []string{"id"}, []interface{}{v}) })
	}
	stmt(func() (WALBatch, error) { return rs.MarkDeleted("t", ids[0]) })
	if err := rs.fs.flushPages(); err != nil {
		t.Fatal(err)
	}
	// second delete is acknowledged, then the process "dies" before any further page flush
	rs.StartTxn()
	batch, err := rs.MarkDeleted("t", ids[1])
	if err != nil {
		t.Fatal(err)
	}
	if err := rs.FlushWALBatch(batch); err != nil {
		t.Fatal(err)
	}
	verifCopyDir(t, filepath.Join(live, "data"), filepath.Join(crashed, "data"))
	rs.EndTxn()
	rs.Close()

	os.Chdir(crashed)
	if err := InitStorage(); err != nil {
		t.Fatal(err)
	}
	rs2, err := OpenRelation("d", true)
	if err != nil {
		t.Fatal(err)
	}
	defer rs2.Close()
	rows, _, err := rs2.Fetch("t")
	if err != nil {
		t.Fatal(err)
	}
	if len(rows) != 1 {
		t.Fatalf("REPRODUCED: after recovery table t has %d rows, want 1 (two of the three rows were deleted and acknowledged)", len(rows))
	}
}
