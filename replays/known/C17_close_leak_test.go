//replay pkg=storage run=TestVerifReplayCloseLeaksStore
package storage

// Replay for obligation storage.(*RelationService).Close/post.stores (property C17): closing a relation service shuts
// its store down on every path. Close returned as soon as closing the log failed, without calling fileStore.close: the
// flush timer goroutine of that store keeps running for the rest of the process and the data file stays open, although
// the session has already dropped the service (Session.ExecQuery, USE: "prev.Close() ... return err").
// Trigger: closing the log file fails (here: it has been closed before).

import (
	"os"
	"runtime"
	"strings"
	"testing"
	"time"
)

func verifFlushTimersClose() int {
	buf := make([]byte, 1<<20)
	n := runtime.Stack(buf, true)
	return strings.Count(string(buf[:n]), "storage.newFileStore.func1")
}

func TestVerifReplayCloseLeaksStore(t *testing.T) {
	dir := t.TempDir()
	wd, _ := os.Getwd()
	defer os.Chdir(wd)
	os.Chdir(dir)
	if err := MakeDataDir(); err != nil {
		t.Fatal(err)
	}
	if err := CreateDB("d"); err != nil {
		t.Fatal(err)
	}
	time.Sleep(20 * time.Millisecond)
	before := verifFlushTimersClose()
	rs, err := OpenRelation("d", false)
	if err != nil {
		t.Fatal(err)
	}
	if err := rs.wal.reader.Close(); err != nil { // the fault: the next close of the log reports an error
		t.Fatal(err)
	}
	cerr := rs.Close()
	if cerr == nil {
		t.Fatal("setup: Close succeeded although closing the log fails")
	}
	time.Sleep(20 * time.Millisecond)
	if after := verifFlushTimersClose(); after != before {
		t.Errorf("REPRODUCED: Close returned %q and left %d flush timer goroutine(s) of the store running", cerr, after-before)
	}
	if ferr := rs.fs.file.Close(); ferr == nil {
		t.Errorf("REPRODUCED: the data file was still open after Close returned %q", cerr)
	}
}
