//replay pkg=cmd/console run=TestVerifReplaySemicolonInQuotes
package main

// Replay for obligation console.(*Terminal).handleKey/inv.preserve.1.count (property C20):
// on Enter the buffer is split at every ';', also at one inside a string literal.

import (
	"bytes"
	"reflect"
	"testing"
)

func TestVerifReplaySemicolonInQuotes(t *testing.T) {
	for _, c := range []struct {
		in   string
		want []string
	}{
		{"INSERT INTO t (a) VALUES ('x;y');\n\r", []string{"INSERT INTO t (a) VALUES ('x;y');"}},
		{"SELECT * FROM t WHERE a = \"p;q\"; USE d;\n\r", []string{"SELECT * FROM t WHERE a = \"p;q\";", "USE d;"}},
	} {
		term := NewTerminal(bytes.NewBufferString(c.in), "")
		got, _ := term.ReadLine()
		if !reflect.DeepEqual(got, c.want) {
			t.Errorf("REPRODUCED: typed %q, the console submits %q, want %q", c.in, got, c.want)
		}
	}
}
