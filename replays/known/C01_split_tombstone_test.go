//replay pkg=storage run=TestVerifReplaySplitTombstone
package storage

// Replay for obligation storage.(*btreeNode).split/post.leaf.deleted (property C01):
// a leaf split must carry the deleted flag of every cell it moves to the new page.
// History: 8 inserts, tombstone the cell with key 6, 9th insert (leaf splits at 9 cells, cells
// 5..9 move) => scanning must not yield key 6 again.

import "testing"

func TestVerifReplaySplitTombstone(t *testing.T) {
	rootPg := &btreeNode{isLeaf: true}
	bt := &BTree{store: &memoryStore{}}
	if err := bt.store.append(rootPg); err != nil {
		t.Fatal(err)
	}
	bt.setRoot(rootPg)
	for i := 0; i < 8; i++ {
		if _, _, err := bt.insert([]byte("v")); err != nil {
			t.Fatal(err)
		}
	}
	cell, err := bt.findCell(6)
	if err != nil || cell == nil {
		t.Fatalf("cell 6 not found: %v", err)
	}
	cell.deleted = true
	if _, _, err := bt.insert([]byte("v")); err != nil {
		t.Fatal(err)
	}
	var keys []uint32
	bt.scanRight(func(c *leafCell) (ScanAction, error) {
		keys = append(keys, c.key)
		return KeepScanning, nil
	})
	for _, k := range keys {
		if k == 6 {
			t.Fatalf("REPRODUCED: deleted row 6 is visible again after the leaf split: keys=%v", keys)
		}
	}
}
