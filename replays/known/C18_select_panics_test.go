//replay pkg=engine run=TestVerifReplaySelectPanics
package engine

// Replay for obligations (property C18):
//   engine.projectColumns/nopanic.assert.3        AVG over a value that is not an int64 (NULL, varchar)
//   engine.sortColumns$1/nopanic.assert.{2,4,6}   ORDER BY column holding values of different types
//   engine.sortColumns$1/nopanic.explicit.1       ORDER BY column holding NULL
// Every statement must return rows or an error value, never panic.

import (
	"fmt"
	"testing"

	"github.com/mk6i/mkdb/sql"
	"github.com/mk6i/mkdb/storage"
)

type replayRM struct {
	rows   func() []*storage.Row
	fields func() []*storage.Field
}

func (m *replayRM) StartTxn() {}
func (m *replayRM) EndTxn()   {}
func (m *replayRM) CreateTable(r *storage.Relation, tableName string) error { return nil }
func (m *replayRM) MarkDeleted(tableName string, rowID uint32) (storage.WALBatch, error) {
	return nil, nil
}
func (m *replayRM) Fetch(tableName string) ([]*storage.Row, []*storage.Field, error) {
	return m.rows(), m.fields(), nil
}
func (m *replayRM) Update(tableName string, rowID uint32, cols []string, updateSrc []interface{}) (storage.WALBatch, error) {
	return nil, nil
}
func (m *replayRM) Insert(tableName string, cols []string, vals []interface{}) (storage.WALBatch, error) {
	return nil, nil
}
func (m *replayRM) FlushWALBatch(batch storage.WALBatch) error { return nil }

func TestVerifReplaySelectPanics(t *testing.T) {
	rm := &replayRM{
		rows: func() []*storage.Row {
			return []*storage.Row{
				{RowID: 1, Vals: []interface{}{int64(1), "a"}},
				{RowID: 2, Vals: []interface{}{nil, "b"}},
				{RowID: 3, Vals: []interface{}{int64(3), nil}},
			}
		},
		fields: func() []*storage.Field {
			return []*storage.Field{{Column: "n"}, {Column: "s"}}
		},
	}
	for _, q := range []string{
		"SELECT avg(n) FROM t",
		"SELECT avg(s) FROM t",
		"SELECT n, s FROM t ORDER BY n",
		"SELECT n, s FROM t ORDER BY s DESC",
	} {
		func() {
			defer func() {
				if r := recover(); r != nil {
					t.Errorf("REPRODUCED: %q panicked: %v", q, fmt.Sprint(r))
				}
			}()
			stmt, err := parseSQL(q)
			if err != nil {
				t.Fatalf("%q: %v", q, err)
			}
			EvaluateSelect(stmt.(sql.Select), rm)
		}()
	}
}
