//replay pkg=storage run=TestVerifReplayOpenRelationLeak
package storage

// Replay for obligation engine.(*Session).ExecQuery/post.inv, callee storage.OpenRelation (property C17):
// OpenRelation must not leave a store (flush-timer goroutine, open file) behind when it fails.
// A data file whose header cannot be read makes fs.open() fail after newFileStore has started
// the timer goroutine.

import (
	"os"
	"path/filepath"
	"runtime"
	"testing"
	"time"
)

func TestVerifReplayOpenRelationLeak(t *testing.T) {
	dir := t.TempDir()
	wd, _ := os.Getwd()
	defer os.Chdir(wd)
	os.Chdir(dir)
	if err := os.MkdirAll(filepath.Join("data", "x"), 0755); err != nil {
		t.Fatal(err)
	}
	if err := os.WriteFile(filepath.Join("data", "x", "tbl"), []byte{1, 2, 3}, 0644); err != nil {
		t.Fatal(err)
	}
	before := runtime.NumGoroutine()
	for i := 0; i < 5; i++ {
		if _, err := OpenRelation("x", true); err == nil {
			t.Fatal("OpenRelation succeeded on a truncated header")
		}
	}
	time.Sleep(50 * time.Millisecond)
	after := runtime.NumGoroutine()
	if after >= before+5 {
		t.Fatalf("REPRODUCED: 5 failed OpenRelation calls left %d goroutines (flush timers) running", after-before)
	}
}
